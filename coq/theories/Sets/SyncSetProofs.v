(* Lemmas about the model of sync2.Set (Sets/SyncSet.v). The sequential
   refinement of sync2.Map (SyncMap/SeqProofs.v) enters as the hypotheses of
   the section below, stated exactly as SeqProofs.v exports them; the section
   is instantiated in Sets/SetsInst.v. std++ style. *)
From Typ Require Import Sets.MapSet Sets.SyncSet Sets.MapSetProofs.
From stdpp Require Import gmap list.
Local Open Scope Z_scope.

(* the set a sync2.Set stands for *)
Definition sabs (s : mstate) : gset Z := dom (abs_map s).

(* The interface of SyncMap/SeqProofs.v, statement by statement (Store_spec is
   not needed by sync2.Set). *)
Record seq_ok (WF : mstate → Prop) : Prop := {
  so_WF_empty : WF empty_mstate;
  so_Load_spec : ∀ s k, WF s →
    WF (Load s k).1 ∧ (Load s k).2 = abs_lookup s k ∧ ∀ k', abs_lookup (Load s k).1 k' = abs_lookup s k';
  so_LoadOrStore_spec : ∀ s k v, WF s → ∃ s' a l, LoadOrStore s k v = Ok (s', a, l) ∧ WF s' ∧
    match abs_lookup s k with
    | Some x => a = x ∧ l = true ∧ ∀ k', abs_lookup s' k' = abs_lookup s k'
    | None => a = v ∧ l = false ∧ ∀ k', abs_lookup s' k' = if decide (k' = k) then Some v else abs_lookup s k'
    end;
  so_LoadAndDelete_spec : ∀ s k, WF s →
    WF (LoadAndDelete s k).1 ∧ (LoadAndDelete s k).2 = abs_lookup s k ∧
    ∀ k', abs_lookup (LoadAndDelete s k).1 k' = if decide (k' = k) then None else abs_lookup s k';
  so_Range_spec : ∀ s order stop, WF s → let s' := (Range s order stop).1 in
    WF s' ∧ (∀ k', abs_lookup s' k' = abs_lookup s k') ∧
    (∀ k v, abs_lookup s k = Some v → is_Some (read_m s' !! k)) ∧
    (Range s order stop).2 = match stop with None => live_pairs s order | Some n => firstn n (live_pairs s order) end;
  so_abs_map_lookup : ∀ s k, WF s → abs_map s !! k = abs_lookup s k
}.

Section with_seq_proofs.
  Variable WF : mstate → Prop.
  Hypothesis SO : seq_ok WF.
  Let WF_empty := so_WF_empty WF SO.
  Let Load_spec := so_Load_spec WF SO.
  Let LoadOrStore_spec := so_LoadOrStore_spec WF SO.
  Let LoadAndDelete_spec := so_LoadAndDelete_spec WF SO.
  Let Range_spec := so_Range_spec WF SO.
  Let abs_map_lookup := so_abs_map_lookup WF SO.

  Lemma elem_of_sabs s k : WF s → k ∈ sabs s ↔ is_Some (abs_lookup s k).
  Proof. intros Hwf. unfold sabs. by rewrite elem_of_dom, abs_map_lookup. Qed.

  Lemma sabs_empty : sabs empty_mstate = ∅.
  Proof.
    apply set_eq. intros k. rewrite elem_of_sabs by apply WF_empty.
    unfold abs_lookup, reach. cbn. rewrite lookup_empty. cbn.
    split; [intros [? ?]; done|set_solver].
  Qed.

  Lemma ss_Has_spec s v : WF s →
    WF (ss_Has s v).1 ∧ sabs (ss_Has s v).1 = sabs s ∧ (ss_Has s v).2 = bool_decide (v ∈ sabs s).
  Proof.
    intros Hwf. unfold ss_Has. destruct (Load_spec s v Hwf) as (H1 & H2 & H3).
    destruct (Load s v) as [s' r]. cbn in *. subst r.
    split; [done|]. split.
    - apply set_eq. intros k. by rewrite !elem_of_sabs, H3.
    - destruct (abs_lookup s v) as [x|] eqn:E.
      + rewrite bool_decide_true; [done|]. rewrite elem_of_sabs, E by done. by eexists.
      + rewrite bool_decide_false; [done|]. rewrite elem_of_sabs, E by done. by intros [? ?].
  Qed.

  Lemma ss_Add_spec s v : WF s →
    ∃ s', ss_Add s v = Ok (s', bool_decide (v ∉ sabs s)) ∧ WF s' ∧ sabs s' = {[v]} ∪ sabs s.
  Proof.
    intros Hwf. unfold ss_Add.
    destruct (LoadOrStore_spec s v 0 Hwf) as (s' & a & l & E & Hwf' & Hm). rewrite E. cbn.
    exists s'. destruct (abs_lookup s v) as [x|] eqn:Ev.
    - destruct Hm as (_ & -> & Hk). cbn.
      assert (Hin : v ∈ sabs s) by (rewrite elem_of_sabs, Ev by done; by eexists).
      split; [by rewrite bool_decide_false by (intros Hn; by apply Hn)|]. split; [done|].
      apply set_eq. intros k. rewrite elem_of_union, elem_of_singleton, !elem_of_sabs, Hk by done.
      split; [tauto|]. intros [->|?]; [|done]. rewrite Ev. by eexists.
    - destruct Hm as (_ & -> & Hk). cbn.
      assert (Hni : v ∉ sabs s) by (rewrite elem_of_sabs, Ev by done; by intros [? ?]).
      split; [by rewrite bool_decide_true|]. split; [done|].
      apply set_eq. intros k. rewrite elem_of_union, elem_of_singleton, !elem_of_sabs, Hk by done.
      destruct (decide (k = v)) as [->|Hne]; [split; [by left|by eexists]|].
      split; [by right|]. intros [?|?]; done.
  Qed.

  Lemma ss_Remove_spec s v : WF s →
    WF (ss_Remove s v).1 ∧ sabs (ss_Remove s v).1 = sabs s ∖ {[v]} ∧ (ss_Remove s v).2 = bool_decide (v ∈ sabs s).
  Proof.
    intros Hwf. unfold ss_Remove. destruct (LoadAndDelete_spec s v Hwf) as (H1 & H2 & H3).
    destruct (LoadAndDelete s v) as [s' r]. cbn in *. subst r.
    split; [done|]. split.
    - apply set_eq. intros k. rewrite elem_of_difference, elem_of_singleton, !elem_of_sabs, H3 by done.
      destruct (decide (k = v)) as [->|Hne]; [split; [by intros [? ?]|tauto]|tauto].
    - destruct (abs_lookup s v) as [x|] eqn:E.
      + rewrite bool_decide_true; [done|]. rewrite elem_of_sabs, E by done. by eexists.
      + rewrite bool_decide_false; [done|]. rewrite elem_of_sabs, E by done. by intros [? ?].
  Qed.

  Lemma live_pairs_visit s order : WF s → map fst (live_pairs s order) = visit (sabs s) order.
  Proof.
    intros Hwf. unfold live_pairs, visit. induction order as [|k order IH]; [done|].
    cbn [omap list_omap]. destruct (abs_lookup s k) as [x|] eqn:E.
    - rewrite filter_cons_True by (rewrite elem_of_sabs, E by done; by eexists).
      cbn. by rewrite <-IH.
    - rewrite filter_cons_False by (rewrite elem_of_sabs, E by done; by intros [? ?]).
      exact IH.
  Qed.

  Lemma Range_None_spec s order : WF s →
    WF (Range s order None).1 ∧ sabs (Range s order None).1 = sabs s ∧
    map fst (Range s order None).2 = visit (sabs s) order.
  Proof.
    intros Hwf. destruct (Range_spec s order None Hwf) as (H1 & H2 & _ & H4).
    split; [done|]. split.
    - apply set_eq. intros k. by rewrite !elem_of_sabs, H2.
    - by rewrite H4, live_pairs_visit.
  Qed.

  Lemma ss_Range_spec {A} s order (f : A → Z → A * bool) acc : WF s →
    WF (ss_Range s order f acc).1 ∧ sabs (ss_Range s order f acc).1 = sabs s ∧
    (ss_Range s order f acc).2 = range_cb f acc (visit (sabs s) order).
  Proof.
    intros Hwf. unfold ss_Range. destruct (Range_None_spec s order Hwf) as (H1 & H2 & H3).
    destruct (Range s order None) as [s' pairs]. cbn in *. by rewrite H3.
  Qed.

  (* the order Go really uses inside Map.Range - any enumeration of the keys of
     read.m after the promotion, dead entries included - is a covering order *)
  Lemma go_order_covers s order : WF s →
    order ≡ₚ (map_to_list (read_m (range_promotion s))).*1 → covers (sabs s) order.
  Proof.
    intros Hwf Hp. split.
    - rewrite Hp. apply NoDup_fst_map_to_list.
    - intros v Hv. rewrite Hp. apply elem_of_sabs in Hv as [x Hx]; [|done].
      destruct (Range_spec s [] None Hwf) as (_ & _ & H3 & _). destruct (H3 v x Hx) as [e He].
      apply elem_of_list_fmap. exists (v, e). split; [done|]. by apply elem_of_map_to_list.
  Qed.

  Lemma ss_iface_ok : iface_ok ss_iface WF sabs.
  Proof. split; [exact ss_Has_spec|intros A; exact ss_Range_spec]. Qed.

  Lemma count_cb_spec vs (n : Z) : range_cb (λ count (_ : Z), (count + 1, true)) n vs = n + Z.of_nat (length vs).
  Proof.
    revert n. induction vs as [|v vs IH]; intros n; cbn [range_cb length]; [lia|]. rewrite IH. lia.
  Qed.

  Lemma ss_Len_spec s order : WF s → covers (sabs s) order →
    WF (ss_Len s order).1 ∧ sabs (ss_Len s order).1 = sabs s ∧ (ss_Len s order).2 = Z.of_nat (size (sabs s)).
  Proof.
    intros Hwf Hc. unfold ss_Len. destruct (ss_Range_spec s order (λ count _, (count + 1, true)) 0 Hwf) as (H1 & H2 & H3).
    split; [done|]. split; [done|]. rewrite H3, count_cb_spec, visit_length by done. lia.
  Qed.

  Lemma snoc_cb_spec vs (acc : list Z) : range_cb (λ result key, (result ++ [key], true)) acc vs = acc ++ vs.
  Proof.
    revert acc. induction vs as [|v vs IH]; intros acc; cbn [range_cb]; [by rewrite app_nil_r|].
    rewrite IH. by rewrite <-app_assoc.
  Qed.

  Lemma ss_Slice_spec s order : WF s →
    WF (ss_Slice s order).1 ∧ sabs (ss_Slice s order).1 = sabs s ∧ (ss_Slice s order).2 = visit (sabs s) order.
  Proof.
    intros Hwf. unfold ss_Slice. destruct (Range_None_spec s order Hwf) as (H1 & H2 & H3).
    destruct (Range s order None) as [s' pairs]. cbn in *. by rewrite H3, snoc_cb_spec.
  Qed.

  Lemma string_cb_fold vs acc :
    range_cb (λ acc value, (string_body acc value, true)) acc vs = fold_left string_body vs acc.
  Proof. revert acc. induction vs as [|v vs IH]; intros acc; cbn [range_cb fold_left]; [done|apply IH]. Qed.

  Lemma ss_String_spec s order : WF s →
    WF (ss_String s order).1 ∧ sabs (ss_String s order).1 = sabs s ∧ (ss_String s order).2 = toks_of (visit (sabs s) order).
  Proof.
    intros Hwf. unfold ss_String.
    destruct (ss_Range_spec s order (λ acc value, (string_body acc value, true)) ([TOpen], false) Hwf) as (H1 & H2 & H3).
    destruct (ss_Range s order _ _) as [s' [sb d]]. cbn in *.
    split; [done|]. split; [done|].
    rewrite string_cb_fold in H3. rewrite <-string_body_spec. by rewrite <-H3.
  Qed.
  (* ---- constructors ---- *)
  Lemma ss_add_all_spec vs s : WF s →
    ∃ s', fold_left ss_add_step vs (Ok s) = Ok s' ∧ WF s' ∧ sabs s' = sabs s ∪ list_to_set vs.
  Proof.
    revert s. induction vs as [|v vs IH]; intros s Hwf; cbn [fold_left].
    - exists s. split; [done|]. split; [done|]. set_solver.
    - destruct (ss_Add_spec s v Hwf) as (s1 & E & Hwf1 & Habs1).
      unfold ss_add_step at 2. cbn. rewrite E. cbn.
      destruct (IH s1 Hwf1) as (s' & E' & Hwf' & Habs'). exists s'. split; [done|]. split; [done|].
      rewrite Habs', Habs1. set_solver.
  Qed.

  Lemma ss_add_all_map {B} (g : B → Z) (m : list B) acc :
    fold_left (λ acc kv, ss_add_step acc (g kv)) m acc = fold_left ss_add_step (map g m) acc.
  Proof. revert acc. induction m as [|x m IH]; intros acc; cbn; [done|apply IH]. Qed.

  Lemma ss_NewSetFromSlice_spec l :
    ∃ s, ss_NewSetFromSlice l = Ok s ∧ WF s ∧ sabs s = list_to_set l.
  Proof.
    destruct (ss_add_all_spec l empty_mstate WF_empty) as (s & E & Hwf & Habs).
    exists s. split; [done|]. split; [done|]. rewrite Habs, sabs_empty. set_solver.
  Qed.
  Lemma ss_NewSetFromKeys_spec m :
    ∃ s, ss_NewSetFromKeys m = Ok s ∧ WF s ∧ sabs s = list_to_set (map fst m).
  Proof.
    unfold ss_NewSetFromKeys. rewrite (ss_add_all_map fst).
    destruct (ss_add_all_spec (map fst m) empty_mstate WF_empty) as (s & E & Hwf & Habs).
    exists s. split; [done|]. split; [done|]. rewrite Habs, sabs_empty. set_solver.
  Qed.
  Lemma ss_NewSetFromValues_spec m :
    ∃ s, ss_NewSetFromValues m = Ok s ∧ WF s ∧ sabs s = list_to_set (map snd m).
  Proof.
    unfold ss_NewSetFromValues. rewrite (ss_add_all_map snd).
    destruct (ss_add_all_spec (map snd m) empty_mstate WF_empty) as (s & E & Hwf & Habs).
    exists s. split; [done|]. split; [done|]. rewrite Habs, sabs_empty. set_solver.
  Qed.

  (* ---- methods with a sets.Set argument: the callbacks of sync2.Set step
     in lockstep with those of maps.Set on the abstraction ---- *)
  Definition R_cnt (a : result (syncset * Z)) (b : gset Z * Z) : Prop :=
    ∃ s, a = Ok (s, b.2) ∧ WF s ∧ sabs s = b.1.

  Lemma AddSet_cb_sim a b v : R_cnt a b →
    R_cnt (ss_AddSet_cb a v).1 (ms_AddSet_cb b v).1 ∧ (ss_AddSet_cb a v).2 = (ms_AddSet_cb b v).2.
  Proof.
    intros (s & -> & Hwf & Habs). destruct b as [X n]. cbn in Habs. subst X.
    unfold ss_AddSet_cb, ms_AddSet_cb. cbn [snd].
    destruct (ss_Add_spec s v Hwf) as (s' & E & Hwf' & Habs'). rewrite E.
    destruct (ms_Add_spec (sabs s) v) as [E1 E2]. destruct (ms_Add (sabs s) v) as [X' b]. cbn in E1, E2. subst X' b.
    cbn. split; [|done]. exists s'. done.
  Qed.

  Lemma RemoveSet_cb_sim (a : syncset * Z) (b : gset Z * Z) v : (WF a.1 ∧ sabs a.1 = b.1 ∧ a.2 = b.2) →
    (WF (ss_RemoveSet_cb a v).1.1 ∧ sabs (ss_RemoveSet_cb a v).1.1 = (ms_RemoveSet_cb b v).1.1 ∧
     (ss_RemoveSet_cb a v).1.2 = (ms_RemoveSet_cb b v).1.2) ∧ (ss_RemoveSet_cb a v).2 = (ms_RemoveSet_cb b v).2.
  Proof.
    destruct a as [s n], b as [X m]. cbn. intros (Hwf & <- & <-).
    unfold ss_RemoveSet_cb, ms_RemoveSet_cb.
    destruct (ss_Remove_spec s v Hwf) as (H1 & H2 & H3). destruct (ss_Remove s v) as [s' b]. cbn in H1, H2, H3. subst b.
    destruct (ms_Remove_spec (sabs s) v) as [E1 E2]. destruct (ms_Remove (sabs s) v) as [X' b]. cbn in E1, E2. subst X' b.
    cbn. done.
  Qed.

  Section with_iface.
    Context {T} (I : set_iface T) (wfT : T → Prop) (absT : T → gset Z) (HI : iface_ok I wfT absT).

    Lemma ss_AddSet_spec s set oset : WF s → wfT set → covers (absT set) oset →
      ∃ set' s', ss_AddSet I s set oset = Ok (set', s', Z.of_nat (size (absT set ∖ sabs s))) ∧
        wfT set' ∧ absT set' = absT set ∧ WF s' ∧ sabs s' = sabs s ∪ absT set.
    Proof.
      intros Hwf Hwft Hc. unfold ss_AddSet.
      destruct (ok_Range _ _ _ HI _ set oset ss_AddSet_cb (Ok (s, 0)) Hwft) as (H1 & H2 & H3).
      destruct (if_Range I set oset ss_AddSet_cb (Ok (s, 0))) as [set' r]. cbn in H1, H2, H3.
      assert (HR : R_cnt r (range_cb ms_AddSet_cb (sabs s, 0) (visit (absT set) oset))).
      { rewrite H3. apply (range_cb_sim R_cnt); [intros; by apply AddSet_cb_sim|]. exists s. done. }
      rewrite AddSet_cb_spec in HR by (apply visit_NoDup, Hc). rewrite visit_set in HR by done.
      destruct HR as (s' & -> & Hwf' & Habs'). cbn in *.
      exists set', s'. done.
    Qed.

    Lemma ss_RemoveSet_spec s set oset : WF s → wfT set → covers (absT set) oset →
      let r := ss_RemoveSet I s set oset in
      wfT r.1.1 ∧ absT r.1.1 = absT set ∧ WF r.1.2 ∧ sabs r.1.2 = sabs s ∖ absT set ∧
      r.2 = Z.of_nat (size (sabs s ∩ absT set)).
    Proof.
      intros Hwf Hwft Hc. unfold ss_RemoveSet.
      destruct (ok_Range _ _ _ HI _ set oset ss_RemoveSet_cb (s, 0) Hwft) as (H1 & H2 & H3).
      destruct (if_Range I set oset ss_RemoveSet_cb (s, 0)) as [set' [s' removed]]. cbn in H1, H2, H3.
      pose proof (range_cb_sim (λ (a : syncset * Z) (b : gset Z * Z), WF a.1 ∧ sabs a.1 = b.1 ∧ a.2 = b.2)
        ss_RemoveSet_cb ms_RemoveSet_cb (visit (absT set) oset) RemoveSet_cb_sim (s, 0) (sabs s, 0)) as HR.
      rewrite <-H3 in HR. rewrite RemoveSet_cb_spec in HR by (apply visit_NoDup, Hc). rewrite visit_set in HR by done.
      destruct HR as (G1 & G2 & G3); [done|]. cbn in *. subst removed. done.
    Qed.

    (* Intersect / SetDiff: callback locals (other, result) against the loop locals of maps.Set *)
    Definition R_or (a : result (T * syncset)) (b : T * gset Z) : Prop :=
      ∃ r, a = Ok (b.1, r) ∧ WF r ∧ sabs r = b.2.

    Lemma Intersect_cb_sim a b v : R_or a b →
      R_or (ss_Intersect_cb I a v).1 (ms_Intersect_body I b v) ∧ (ss_Intersect_cb I a v).2 = true.
    Proof.
      intros (r & -> & Hwf & Habs). destruct b as [other X]. cbn in Habs. subst X.
      unfold ss_Intersect_cb, ms_Intersect_body. cbn [fst].
      destruct (if_Has I other v) as [other' h]. destruct h.
      - destruct (ss_Add_spec r v Hwf) as (r' & E & Hwf' & Habs'). rewrite E. cbn.
        split; [|done]. exists r'. split; [done|]. split; [done|]. cbn.
        by rewrite (proj1 (ms_Add_spec (sabs r) v)).
      - cbn. split; [|done]. exists r. done.
    Qed.

    Lemma SetDiff_cb_sim a b v : R_or a b →
      R_or (ss_SetDiff_cb I a v).1 (ms_SetDiff_body I b v) ∧ (ss_SetDiff_cb I a v).2 = true.
    Proof.
      intros (r & -> & Hwf & Habs). destruct b as [other X]. cbn in Habs. subst X.
      unfold ss_SetDiff_cb, ms_SetDiff_body. cbn [fst].
      destruct (if_Has I other v) as [other' h]. destruct h; cbn [negb].
      - cbn. split; [|done]. exists r. done.
      - destruct (ss_Add_spec r v Hwf) as (r' & E & Hwf' & Habs'). rewrite E. cbn.
        split; [|done]. exists r'. split; [done|]. split; [done|]. cbn.
        by rewrite (proj1 (ms_Add_spec (sabs r) v)).
    Qed.

    Lemma range_cb_fold_sim {A B} (R : A → B → Prop) (f : A → Z → A * bool) (g : B → Z → B) vs :
      (∀ a b v, R a b → R (f a v).1 (g b v) ∧ (f a v).2 = true) →
      ∀ a b, R a b → R (range_cb f a vs) (fold_left g vs b).
    Proof.
      intros Hs. induction vs as [|v vs IH]; intros a b HR; [done|].
      cbn. destruct (Hs a b v HR) as [H1 H2]. destruct (f a v) as [a' c]. cbn in *. subst c. by apply IH.
    Qed.

    Lemma ss_Intersect_spec s other os : WF s → wfT other → covers (sabs s) os →
      ∃ result s' other', ss_Intersect I s other os = Ok (result, s', other') ∧
        WF result ∧ sabs result = sabs s ∩ absT other ∧ WF s' ∧ sabs s' = sabs s ∧
        wfT other' ∧ absT other' = absT other.
    Proof.
      intros Hwf Hwft Hc. unfold ss_Intersect.
      destruct (ss_Range_spec s os (ss_Intersect_cb I) (Ok (other, empty_mstate)) Hwf) as (H1 & H2 & H3).
      destruct (ss_Range s os _ _) as [s' r]. cbn in H1, H2, H3.
      assert (HR : R_or r (fold_left (ms_Intersect_body I) (visit (sabs s) os) (other, ∅))).
      { rewrite H3. apply (range_cb_fold_sim R_or); [intros; by apply Intersect_cb_sim|].
        exists empty_mstate. split; [done|]. split; [apply WF_empty|apply sabs_empty]. }
      destruct (Intersect_body_spec I wfT absT HI (visit (sabs s) os) other ∅ Hwft) as (G1 & G2 & G3).
      destruct (fold_left _ _ _) as [other' X]. cbn in *.
      destruct HR as (result & -> & Hwfr & Habsr). cbn in *.
      exists result, s', other'. split; [done|]. split; [done|]. split; [|done].
      rewrite Habsr, G3, visit_set by done. set_solver.
    Qed.

    Lemma ss_SetDiff_spec s other os : WF s → wfT other → covers (sabs s) os →
      ∃ result s' other', ss_SetDiff I s other os = Ok (result, s', other') ∧
        WF result ∧ sabs result = sabs s ∖ absT other ∧ WF s' ∧ sabs s' = sabs s ∧
        wfT other' ∧ absT other' = absT other.
    Proof.
      intros Hwf Hwft Hc. unfold ss_SetDiff.
      destruct (ss_Range_spec s os (ss_SetDiff_cb I) (Ok (other, empty_mstate)) Hwf) as (H1 & H2 & H3).
      destruct (ss_Range s os _ _) as [s' r]. cbn in H1, H2, H3.
      assert (HR : R_or r (fold_left (ms_SetDiff_body I) (visit (sabs s) os) (other, ∅))).
      { rewrite H3. apply (range_cb_fold_sim R_or); [intros; by apply SetDiff_cb_sim|].
        exists empty_mstate. split; [done|]. split; [apply WF_empty|apply sabs_empty]. }
      destruct (SetDiff_body_spec I wfT absT HI (visit (sabs s) os) other ∅ Hwft) as (G1 & G2 & G3).
      destruct (fold_left _ _ _) as [other' X]. cbn in *.
      destruct HR as (result & -> & Hwfr & Habsr). cbn in *.
      exists result, s', other'. split; [done|]. split; [done|]. split; [|done].
      rewrite Habsr, G3, visit_set by done. set_solver.
    Qed.
  End with_iface.

  Lemma ss_Clone_spec s os : WF s → covers (sabs s) os →
    ∃ s' clone, ss_Clone s os = Ok (s', clone) ∧ WF s' ∧ sabs s' = sabs s ∧ WF clone ∧ sabs clone = sabs s.
  Proof.
    intros Hwf Hc. unfold ss_Clone.
    destruct (ss_AddSet_spec ss_iface WF sabs ss_iface_ok empty_mstate s os WF_empty Hwf Hc)
      as (s' & clone & E & H1 & H2 & H3 & H4).
    rewrite E. cbn. exists s', clone. split; [done|]. split; [done|]. split; [done|]. split; [done|].
    rewrite H4, sabs_empty. set_solver.
  Qed.

  Section with_iface2.
    Context {T} (I : set_iface T) (wfT : T → Prop) (absT : T → gset Z) (HI : iface_ok I wfT absT).

    Lemma ss_Union_spec s other os oother : WF s → wfT other → covers (sabs s) os → covers (absT other) oother →
      ∃ result s' other', ss_Union I s other os oother = Ok (result, s', other') ∧
        WF result ∧ sabs result = sabs s ∪ absT other ∧ WF s' ∧ sabs s' = sabs s ∧
        wfT other' ∧ absT other' = absT other.
    Proof.
      intros Hwf Hwft Hcs Hco. unfold ss_Union.
      destruct (ss_Clone_spec s os Hwf Hcs) as (s' & clone & E & H1 & H2 & H3 & H4). rewrite E. cbn.
      destruct (ss_AddSet_spec I wfT absT HI clone other oother H3 Hwft Hco) as (other' & result & E' & G1 & G2 & G3 & G4).
      rewrite E'. cbn. exists result, s', other'. split; [done|]. split; [done|]. split; [|done].
      by rewrite G4, H4.
    Qed.

    (* SymDiff, second pass: callback locals (s, result) against the result of maps.Set's callback *)
    Definition R_sr (X : gset Z) (a : result (syncset * syncset)) (b : gset Z) : Prop :=
      ∃ s r, a = Ok (s, r) ∧ WF s ∧ sabs s = X ∧ WF r ∧ sabs r = b.

    Lemma SymDiff_cb_sim X a b v : R_sr X a b →
      R_sr X (ss_SymDiff_cb a v).1 (ms_SymDiff_cb X b v).1 ∧ (ss_SymDiff_cb a v).2 = (ms_SymDiff_cb X b v).2.
    Proof.
      intros (s & r & -> & Hwfs & <- & Hwfr & <-).
      unfold ss_SymDiff_cb, ms_SymDiff_cb.
      destruct (ss_Has_spec s v Hwfs) as (H1 & H2 & H3). destruct (ss_Has s v) as [s' h]. cbn in H1, H2, H3. subst h.
      unfold ms_Has. destruct (bool_decide (v ∈ sabs s)); cbn [negb].
      - cbn. split; [|done]. exists s', r. done.
      - destruct (ss_Add_spec r v Hwfr) as (r' & E & Hwf' & Habs'). rewrite E. cbn.
        split; [|done]. exists s', r'. split; [done|]. split; [done|]. split; [done|]. split; [done|].
        by rewrite (proj1 (ms_Add_spec (sabs r) v)).
    Qed.

    Lemma ss_SymDiff_spec s other os oother : WF s → wfT other → covers (sabs s) os → covers (absT other) oother →
      ∃ result s' other', ss_SymDiff I s other os oother = Ok (result, s', other') ∧
        WF result ∧ sabs result = (sabs s ∖ absT other) ∪ (absT other ∖ sabs s) ∧ WF s' ∧ sabs s' = sabs s ∧
        wfT other' ∧ absT other' = absT other.
    Proof.
      intros Hwf Hwft Hcs Hco. unfold ss_SymDiff.
      destruct (ss_SetDiff_spec I wfT absT HI s other os Hwf Hwft Hcs)
        as (result & s1 & other1 & E & H1 & H2 & H3 & H4 & H5 & H6).
      rewrite E. cbn.
      destruct (ok_Range _ _ _ HI _ other1 oother ss_SymDiff_cb (Ok (s1, result)) H5) as (G1 & G2 & G3).
      destruct (if_Range I other1 oother ss_SymDiff_cb (Ok (s1, result))) as [other2 r]. cbn in G1, G2, G3.
      assert (HR : R_sr (sabs s) r (range_cb (ms_SymDiff_cb (sabs s)) (sabs result) (visit (absT other1) oother))).
      { rewrite G3. apply (range_cb_sim (R_sr (sabs s))); [intros; by apply SymDiff_cb_sim|].
        exists s1, result. done. }
      rewrite SymDiff_cb_spec in HR. rewrite H6, visit_set in HR by done.
      destruct HR as (s2 & r2 & -> & K1 & K2 & K3 & K4). cbn.
      exists r2, s2, other2. split; [done|]. split; [done|]. split; [by rewrite K4, H2|].
      split; [done|]. split; [done|]. split; [done|]. congruence.
    Qed.
  End with_iface2.
End with_seq_proofs.
