(* Correspondence check for C03: the harness performs a history of calls on
   real maps.Set[int] / *sync2.Set[int] values held through sets.Set[int]
   handles and records what every call returned; [check_case] runs the same
   history on the model ([run_op] of Sets/AnySet.v) and compares every
   output. Where Go's map iteration order shows in an output (Slice, String,
   Range) the order the real code used is read off the observation and handed
   to the model as its visit order, completed by the rest of the universe and
   with repetitions removed (so a value enumerated twice or a member left out
   by the implementation is a mismatch); where it does not show, the model
   runs with the universe as visit order (the theorems say the outputs do not
   depend on it). The pairs of CartesianProduct are compared as a multiset and
   the text of String on the integers it contains (the property fixes neither
   the order of the pairs nor the format of the text). For the calls that are
   one sync2.Map call, the Map paths the real code took (hook labels) are
   compared with what the model state predicts ([path_of]).
   Definitions only. *)
From Typ Require Export Lib.Base Sets.AnySet.
Local Open Scope Z_scope.

Inductive cop :=
| CNew (i : impl)
| CFromSlice (i : impl) (slice : list Z)
| CFromKeys (i : impl) (m : list (Z * Z))
| CFromValues (i : impl) (m : list (Z * Z))
| CAdd (h v : Z)
| CRemove (h v : Z)
| CHas (h v : Z)
| CLen (h : Z)
| CSlice (h : Z)
| CString (h : Z)
| CRange (h j : Z)
| CClone (h : Z)
| CAddSet (h g : Z)
| CRemoveSet (h g : Z)
| CBin (b : binop) (h g : Z)
| CCartesian (h g : Z).

Record case := Case {
  c_universe : list Z;            (* every value the history mentions, once *)
  c_ops : list (cop * out * Z)    (* the calls, what the real code returned, the Map paths taken (-1: not recorded) *)
}.

(* keep the first occurrence of every value *)
Fixpoint dedup_first (seen l : list Z) : list Z :=
  match l with
  | [] => []
  | x :: l' => if existsb (Z.eqb x) seen then dedup_first seen l' else x :: dedup_first (x :: seen) l'
  end.
Definition order_from (u obs : list Z) : list Z := dedup_first [] (obs ++ u).

Definition tok_vals (t : list tok) : list Z :=
  omap (λ x, match x with TVal v => Some v | _ => None end) t.

Definition pairs_for (va : Z) (l : list (Z * Z)) : list Z :=
  map snd (List.filter (λ p, Z.eqb p.1 va) l).

(* the model call for a recorded call, visit orders taken from the observation *)
Definition to_op (u : list Z) (c : cop) (observed : out) : op :=
  let n := Z.to_nat in
  match c with
  | CNew i => ONew i
  | CFromSlice i l => OFromSlice i l
  | CFromKeys i m => OFromKeys i m
  | CFromValues i m => OFromValues i m
  | CAdd h v => OAdd (n h) v
  | CRemove h v => ORemove (n h) v
  | CHas h v => OHas (n h) v
  | CLen h => OLen (n h) u
  | CSlice h => OSlice (n h) (order_from u match observed with VList l => l | _ => [] end)
  | CString h => OString (n h) (order_from u match observed with VToks t => tok_vals t | _ => [] end)
  | CRange h j => ORange (n h) (order_from u match observed with VList l => l | _ => [] end) (n j)
  | CClone h => OClone (n h) u
  | CAddSet h g => OAddSet (n h) (n g) u
  | CRemoveSet h g => ORemoveSet (n h) (n g) u
  | CBin b h g => OBin b (n h) (n g) u u
  | CCartesian h g =>
      let l := match observed with VPairs l => l | _ => [] end in
      OCartesian (n h) (n g) (order_from u (map fst l)) (λ va, order_from u (pairs_for va l))
  end.

Definition pairZ_eqb (a b : Z * Z) : bool := Z.eqb a.1 b.1 && Z.eqb a.2 b.2.

(* CartesianProduct: the property fixes the pairs, not their order *)
Definition pair_leb (a b : Z * Z) : bool := (a.1 <? b.1) || (Z.eqb a.1 b.1 && (a.2 <=? b.2)).
Fixpoint insert_pair (x : Z * Z) (l : list (Z * Z)) : list (Z * Z) :=
  match l with [] => [x] | y :: l' => if pair_leb x y then x :: l else y :: insert_pair x l' end.
Definition sort_pairs (l : list (Z * Z)) : list (Z * Z) := fold_right insert_pair [] l.
Definition pairs_perm_eqb (x y : list (Z * Z)) : bool :=
  list_eqb pairZ_eqb x y || list_eqb pairZ_eqb (sort_pairs x) (sort_pairs y).

(* Outputs are compared on what the property fixes: everything exactly, except
   that the pairs of CartesianProduct are compared as a multiset (same pairs,
   same multiplicities, any order) and the text of String on the values it
   lists, in the order it lists them (braces and separators are not part of
   the property; the harness extracts the integers). *)
Definition out_eqb (a b : out) : bool :=
  match a, b with
  | VUnit, VUnit => true
  | VBool x, VBool y => Bool.eqb x y
  | VInt x, VInt y => Z.eqb x y
  | VList x, VList y => list_eqb Z.eqb x y
  | VToks x, VToks y => list_eqb Z.eqb (tok_vals x) (tok_vals y)
  | VPairs x, VPairs y => pairs_perm_eqb x y
  | _, _ => false
  end.

(* ---- which paths of sync2.Map a call takes (validation of the layout machine of Seq.v) ----
   For the calls that are a single Map call on a sync2.Set (Has = Load, Add =
   LoadOrStore, Remove = LoadAndDelete, Len/Slice/String/Range = Range) the
   harness records, from the scheduling hooks of the verif build, whether the
   call took the mutex (bit 1: Load.lock / LoadOrStore.lock / LoadAndDelete.lock
   / Range.lock), promoted the dirty map (bit 2: miss.store / Range.promote) and
   expunged a nil entry (bit 4: expunge.cas). [path_of] predicts the same three
   facts from the model state BEFORE the call. -1 = not predicted / not recorded. *)
Definition bits (lock promote expunge : bool) : Z :=
  (if lock then 1 else 0) + (if promote then 2 else 0) + (if expunge then 4 else 0).
Definition miss_promotes (s : mstate) : bool := negb (misses s + 1 <? dirty_len s).
Definition has_nil_read (s : mstate) : bool :=
  existsb (λ ke, match get_ent s ke.2 with PNil => true | _ => false end) (map_to_list (read_m s)).
Definition path_of (hs : list anyset) (o : op) : Z :=
  let on h (k : mstate -> Z) := match hs !! h with Some (AS s) => k s | _ => -1 end in
  match o with
  | OHas h key => on h (λ s,
      match read_m s !! key with
      | Some _ => 0
      | None => if amended s then bits true (miss_promotes s) false else 0
      end)
  | ORemove h key => on h (λ s,
      match read_m s !! key with
      | Some _ => 0
      | None => if amended s then bits true (miss_promotes (dirty_delete s key)) false else 0
      end)
  | OAdd h key => on h (λ s,
      match read_m s !! key with
      | Some e => match get_ent s e with PExpunged => bits true false false | _ => 0 end
      | None =>
          match dirty_lookup s key with
          | Some _ => bits true (miss_promotes s) false
          | None => bits true false
                      (negb (amended s) && match dirty s with None => true | Some _ => false end && has_nil_read s)
          end
      end)
  | OLen h _ | OSlice h _ | OString h _ | ORange h _ _ => on h (λ s, if amended s then 3 else 0)
  | _ => -1
  end.
Definition path_ok (predicted observed : Z) : bool :=
  (predicted <? 0) || (observed <? 0) || Z.eqb predicted observed.

Fixpoint check_ops (u : list Z) (hs : list anyset) (ops : list (cop * out * Z)) : bool :=
  match ops with
  | [] => true
  | (c, observed, paths) :: ops' =>
      let o := to_op u c observed in
      match run_op hs o with
      | Some (Ok (hs', v)) => out_eqb v observed && path_ok (path_of hs o) paths && check_ops u hs' ops'
      | _ => false
      end
  end.

Definition check_case (c : case) : bool := check_ops (c_universe c) [] (c_ops c).
