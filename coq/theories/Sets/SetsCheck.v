(* Correspondence check for C03: the harness performs a history of calls on
   real maps.Set[int] / *sync2.Set[int] values held through sets.Set[int]
   handles and records what every call returned; [check_case] runs the same
   history on the model ([run_op] of Sets/AnySet.v) and compares every
   output. Where Go's map iteration order shows in an output (Slice, String,
   Range, CartesianProduct) the order the real code used is read off the
   observation and handed to the model as its visit order, completed by the
   rest of the universe and with repetitions removed (so a value enumerated
   twice or a member left out by the implementation is a mismatch); where it
   does not show, the model runs with the universe as visit order (the
   theorems say the outputs do not depend on it). Definitions only. *)
From Typ Require Export Lib.Base Sets.AnySet.
Local Open Scope Z_scope.

Inductive cop :=
| CNew (i : impl)
| CFromSlice (i : impl) (slice : list Z)
| CFromKeys (i : impl) (m : list (Z * Z))
| CFromValues (i : impl) (m : list (Z * Z))
| CAdd (h v : Z)
| CRemove (h v : Z)
| CHas (h v : Z)
| CLen (h : Z)
| CSlice (h : Z)
| CString (h : Z)
| CRange (h j : Z)
| CClone (h : Z)
| CAddSet (h g : Z)
| CRemoveSet (h g : Z)
| CBin (b : binop) (h g : Z)
| CCartesian (h g : Z).

Record case := Case {
  c_universe : list Z;            (* every value the history mentions, once *)
  c_ops : list (cop * out)        (* the calls and what the real code returned *)
}.

(* keep the first occurrence of every value *)
Fixpoint dedup_first (seen l : list Z) : list Z :=
  match l with
  | [] => []
  | x :: l' => if existsb (Z.eqb x) seen then dedup_first seen l' else x :: dedup_first (x :: seen) l'
  end.
Definition order_from (u obs : list Z) : list Z := dedup_first [] (obs ++ u).

Definition tok_vals (t : list tok) : list Z :=
  omap (λ x, match x with TVal v => Some v | _ => None end) t.

Definition pairs_for (va : Z) (l : list (Z * Z)) : list Z :=
  map snd (List.filter (λ p, Z.eqb p.1 va) l).

(* the model call for a recorded call, visit orders taken from the observation *)
Definition to_op (u : list Z) (c : cop) (observed : out) : op :=
  let n := Z.to_nat in
  match c with
  | CNew i => ONew i
  | CFromSlice i l => OFromSlice i l
  | CFromKeys i m => OFromKeys i m
  | CFromValues i m => OFromValues i m
  | CAdd h v => OAdd (n h) v
  | CRemove h v => ORemove (n h) v
  | CHas h v => OHas (n h) v
  | CLen h => OLen (n h) u
  | CSlice h => OSlice (n h) (order_from u match observed with VList l => l | _ => [] end)
  | CString h => OString (n h) (order_from u match observed with VToks t => tok_vals t | _ => [] end)
  | CRange h j => ORange (n h) (order_from u match observed with VList l => l | _ => [] end) (n j)
  | CClone h => OClone (n h) u
  | CAddSet h g => OAddSet (n h) (n g) u
  | CRemoveSet h g => ORemoveSet (n h) (n g) u
  | CBin b h g => OBin b (n h) (n g) u u
  | CCartesian h g =>
      let l := match observed with VPairs l => l | _ => [] end in
      OCartesian (n h) (n g) (order_from u (map fst l)) (λ va, order_from u (pairs_for va l))
  end.

Definition pairZ_eqb (a b : Z * Z) : bool := Z.eqb a.1 b.1 && Z.eqb a.2 b.2.

Definition out_eqb (a b : out) : bool :=
  match a, b with
  | VUnit, VUnit => true
  | VBool x, VBool y => Bool.eqb x y
  | VInt x, VInt y => Z.eqb x y
  | VList x, VList y => list_eqb Z.eqb x y
  | VToks x, VToks y => list_eqb tok_eqb x y
  | VPairs x, VPairs y => list_eqb pairZ_eqb x y
  | _, _ => false
  end.

Fixpoint check_ops (u : list Z) (hs : list anyset) (ops : list (cop * out)) : bool :=
  match ops with
  | [] => true
  | (c, observed) :: ops' =>
      match run_op hs (to_op u c observed) with
      | Some (Ok (hs', v)) => out_eqb v observed && check_ops u hs' ops'
      | _ => false
      end
  end.

Definition check_case (c : case) : bool := check_ops (c_universe c) [] (c_ops c).
