(* What maps/set.go, sync2/set.go and sets/sets.go share: the part of the
   sets.Set interface through which a method reaches its ARGUMENT (the
   argument is only ever asked Has and Range), the callback loop of Range, and
   the tokens of String. Definitions only.

   Values are Z (Go int). A Go callback "func(value T) bool" that closes over
   locals is a function from (locals, value) to (locals, continue?): the
   locals are the state [A] threaded through [range_cb]. *)
From stdpp Require Export gmap list.
From Typ Require Export Lib.Base.
Local Open Scope Z_scope.

(* "for each visited v { if !f(v) { break } }": [vs] are the values the loop
   reaches, in visit order. *)
Fixpoint range_cb {A} (f : A -> Z -> A * bool) (acc : A) (vs : list Z) : A :=
  match vs with
  | [] => acc
  | v :: vs' => let '(acc', cont) := f acc v in if cont then range_cb f acc' vs' else acc'
  end.

(* A sets.Set[int] received as an argument: dynamic dispatch of the two
   methods the implementations call on an argument. Both may change the
   argument's internal state (sync2.Set: miss counter, promotion), hence the
   returned T. The [list Z] of Range is the visit order of the underlying Go
   map iteration (unspecified in Go; an explicit input here). *)
Record set_iface (T : Type) := SetIface {
  if_Has : T -> Z -> T * bool;
  if_Range : forall A : Type, T -> list Z -> (A -> Z -> A * bool) -> A -> T * A
}.
Arguments if_Has {T} _ _ _.
Arguments if_Range {T} _ {A} _ _ _ _.

(* String(): '{', values separated by ' ', '}'. fmt.Fprint of an int is not
   modelled further: a value token stands for its decimal text. *)
Inductive tok := TOpen | TClose | TSpace | TVal (v : Z).

Definition tok_eqb (a b : tok) : bool :=
  match a, b with
  | TOpen, TOpen | TClose, TClose | TSpace, TSpace => true
  | TVal x, TVal y => Z.eqb x y
  | _, _ => false
  end.

(* the loop body shared by both String methods: locals (sb, addDelim) *)
Definition string_body (acc : list tok * bool) (v : Z) : list tok * bool :=
  let '(sb, addDelim) := acc in
  let '(sb1, addDelim1) := if addDelim then (sb ++ [TSpace], addDelim) else (sb, true) in
  (sb1 ++ [TVal v], addDelim1).
