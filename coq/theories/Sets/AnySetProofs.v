(* Lemmas about the interface level (Sets/AnySet.v): every method of
   sets.Set, for both dynamic types of the receiver and of the argument, in
   terms of the set [abs] a value stands for; CartesianProduct; the history
   theorem. The refinement of sync2.Map enters as [seq_ok WF]. std++ style. *)
From Typ Require Import Sets.AnySet Sets.MapSetProofs Sets.SyncSetProofs.
From stdpp Require Import gmap list.
Local Open Scope Z_scope.

(* the specification side *)
Definition set_bin (o : binop) (X Y : gset Z) : gset Z :=
  match o with
  | BUnion => X ∪ Y
  | BIntersect => X ∩ Y
  | BSetDiff => X ∖ Y
  | BSymDiff => (X ∖ Y) ∪ (Y ∖ X)
  end.

Definition cp_spec (X Y : gset Z) (oa : list Z) (ob : Z → list Z) : list (Z * Z) :=
  flat_map (λ va, map (λ vb, (va, vb)) (visit Y (ob va))) (visit X oa).

Lemma elem_of_map_pair (va : Z) (ys : list Z) x y :
  (x, y) ∈ map (λ vb, (va, vb)) ys ↔ x = va ∧ y ∈ ys.
Proof.
  induction ys as [|y' ys IH]; cbn.
  - rewrite !elem_of_nil. tauto.
  - rewrite !elem_of_cons, IH. split; [intros [[= -> ->]|[-> ?]]|intros [-> [->|?]]]; tauto.
Qed.

Lemma pairs_props (ys : Z → list Z) (n : nat) xs :
  NoDup xs → (∀ va, NoDup (ys va)) → (∀ va, length (ys va) = n) →
  let l := flat_map (λ va, map (λ vb, (va, vb)) (ys va)) xs in
  NoDup l ∧ length l = (length xs * n)%nat ∧ ∀ x y, (x, y) ∈ l ↔ x ∈ xs ∧ y ∈ ys x.
Proof.
  intros Hnd Hys Hlen. cbn zeta. induction Hnd as [|va xs Hva Hnd IH]; cbn [flat_map].
  - split; [constructor|]. split; [done|]. intros x y. rewrite !elem_of_nil. tauto.
  - destruct IH as (IH1 & IH2 & IH3).
    assert (Hel : ∀ x y, (x, y) ∈ map (λ vb, (va, vb)) (ys va) ++ flat_map (λ va, map (λ vb, (va, vb)) (ys va)) xs
                         ↔ x ∈ va :: xs ∧ y ∈ ys x).
    { intros x y. rewrite elem_of_app, elem_of_map_pair, IH3, elem_of_cons.
      split; [intros [[-> ?]|[? ?]]; tauto|intros [[->|?] ?]; tauto]. }
    split; [|split; [|exact Hel]].
    + apply NoDup_app. split; [|split; [|done]].
      * clear -Hys. specialize (Hys va). induction Hys as [|y ys' Hy Hnd IH]; cbn; constructor; [|done].
        rewrite elem_of_map_pair. tauto.
      * intros [x y]. rewrite elem_of_map_pair, IH3. intros [-> _] [? _]. done.
    + rewrite app_length, map_length, Hlen, IH2. cbn. lia.
Qed.

Lemma cp_spec_props X Y oa ob : covers X oa → (∀ va, covers Y (ob va)) →
  NoDup (cp_spec X Y oa ob) ∧ length (cp_spec X Y oa ob) = (size X * size Y)%nat ∧
  ∀ x y, (x, y) ∈ cp_spec X Y oa ob ↔ x ∈ X ∧ y ∈ Y.
Proof.
  intros Ha Hb. unfold cp_spec.
  destruct (pairs_props (λ va, visit Y (ob va)) (size Y) (visit X oa)) as (H1 & H2 & H3).
  - apply visit_NoDup, Ha.
  - intros va. apply visit_NoDup, Hb.
  - intros va. by apply visit_length.
  - split; [done|]. split; [by rewrite H2, visit_length|].
    intros x y. rewrite H3, elem_of_visit by done. by rewrite elem_of_visit.
Qed.

(* ---- the specification of a history: one mathematical set per handle ---- *)
Definition spec_op (Xs : list (gset Z)) (o : op) : option (list (gset Z) * out) :=
  let one h (k : gset Z → list (gset Z) * out) :=
    match Xs !! h with Some X => Some (k X) | None => None end in
  let two h g (k : gset Z → gset Z → list (gset Z) * out) :=
    if Nat.eqb h g then None else
    match Xs !! h, Xs !! g with Some X, Some Y => Some (k X Y) | _, _ => None end in
  match o with
  | ONew _ => Some (Xs ++ [∅], VUnit)
  | OFromSlice _ l => Some (Xs ++ [list_to_set l], VUnit)
  | OFromKeys _ m => Some (Xs ++ [list_to_set (map fst m)], VUnit)
  | OFromValues _ m => Some (Xs ++ [list_to_set (map snd m)], VUnit)
  | OAdd h v => one h (λ X, (<[h := {[v]} ∪ X]> Xs, VBool (bool_decide (v ∉ X))))
  | ORemove h v => one h (λ X, (<[h := X ∖ {[v]}]> Xs, VBool (bool_decide (v ∈ X))))
  | OHas h v => one h (λ X, (Xs, VBool (bool_decide (v ∈ X))))
  | OLen h _ => one h (λ X, (Xs, VInt (Z.of_nat (size X))))
  | OSlice h o => one h (λ X, (Xs, VList (visit X o)))
  | OString h o => one h (λ X, (Xs, VToks (toks_of (visit X o))))
  | ORange h o j => one h (λ X, (Xs, VList (take_stop j (visit X o))))
  | OClone h _ => one h (λ X, (Xs ++ [X], VUnit))
  | OAddSet h g _ => two h g (λ X Y, (<[h := X ∪ Y]> Xs, VInt (Z.of_nat (size (Y ∖ X)))))
  | ORemoveSet h g _ => two h g (λ X Y, (<[h := X ∖ Y]> Xs, VInt (Z.of_nat (size (X ∩ Y)))))
  | OBin b h g _ _ => two h g (λ X Y, (Xs ++ [set_bin b X Y], VUnit))
  | OCartesian h g oh og => two h g (λ X Y, (Xs, VPairs (cp_spec X Y oh og)))
  end.

(* the visit orders an operation is given are orders Go could have used: each
   lists every member of the set it iterates exactly once (only where the
   result could depend on it; Slice/String/Range/CartesianProduct are specified
   for every order) *)
Definition covers_at (Xs : list (gset Z)) (h : nat) (o : list Z) : Prop :=
  match Xs !! h with Some X => covers X o | None => True end.
Definition orders_ok (Xs : list (gset Z)) (o : op) : Prop :=
  match o with
  | OLen h o | OClone h o => covers_at Xs h o
  | OAddSet h g og | ORemoveSet h g og => covers_at Xs g og
  | OBin _ h g oh og => covers_at Xs h oh ∧ covers_at Xs g og
  | _ => True
  end.

Fixpoint spec_ops (Xs : list (gset Z)) (ops : list op) : option (list (gset Z) * list out) :=
  match ops with
  | [] => Some (Xs, [])
  | o :: ops' =>
      match spec_op Xs o with
      | None => None
      | Some (Xs', v) =>
          match spec_ops Xs' ops' with
          | Some (Xs'', vs) => Some (Xs'', v :: vs)
          | None => None
          end
      end
  end.

Fixpoint all_orders_ok (Xs : list (gset Z)) (ops : list op) : Prop :=
  match ops with
  | [] => True
  | o :: ops' =>
      orders_ok Xs o ∧
      match spec_op Xs o with Some (Xs', _) => all_orders_ok Xs' ops' | None => True end
  end.

(* the hypotheses on visit orders are decidable (used by the examples) *)
Global Instance covers_dec X o : Decision (covers X o).
Proof.
  unfold covers. apply and_dec; [apply _|].
  refine (cast_if (decide (set_Forall (λ v, v ∈ o) X))); unfold set_Forall in *; done.
Defined.
Global Instance covers_at_dec Xs h o : Decision (covers_at Xs h o).
Proof. unfold covers_at. destruct (Xs !! h); apply _. Defined.
Global Instance orders_ok_dec Xs o : Decision (orders_ok Xs o).
Proof. destruct o; cbn; apply _. Defined.
Global Instance all_orders_ok_dec ops : ∀ Xs, Decision (all_orders_ok Xs ops).
Proof.
  induction ops as [|o ops IH]; intros Xs; cbn; [apply _|].
  apply and_dec; [apply _|]. destruct (spec_op Xs o) as [[Xs' v]|]; apply _.
Defined.

Section with_seq_proofs.
  Variable WF : mstate → Prop.
  Hypothesis SO : seq_ok WF.

  (* well-formedness of a sets.Set value: the structural invariant of the
     sync2.Map inside a sync2.Set; nothing for a maps.Set *)
  Definition WFa (a : anyset) : Prop := match a with AM _ => True | AS s => WF s end.

  Lemma as_Has_spec a v : WFa a →
    WFa (as_Has a v).1 ∧ abs (as_Has a v).1 = abs a ∧ (as_Has a v).2 = bool_decide (v ∈ abs a).
  Proof.
    destruct a as [s|s]; intros Hwf; cbn [as_Has].
    - done.
    - destruct (ss_Has_spec WF SO s v Hwf) as (H1 & H2 & H3). destruct (ss_Has s v) as [s' b]. done.
  Qed.

  Lemma as_Range_spec {A} a order (f : A → Z → A * bool) acc : WFa a →
    WFa (as_Range a order f acc).1 ∧ abs (as_Range a order f acc).1 = abs a ∧
    (as_Range a order f acc).2 = range_cb f acc (visit (abs a) order).
  Proof.
    destruct a as [s|s]; intros Hwf; cbn [as_Range].
    - done.
    - destruct (ss_Range_spec WF SO s order f acc Hwf) as (H1 & H2 & H3). destruct (ss_Range s order f acc) as [s' r]. done.
  Qed.

  Lemma any_iface_ok : iface_ok any_iface WFa abs.
  Proof. split; [exact as_Has_spec|intros A; exact as_Range_spec]. Qed.

  Lemma as_Add_spec a v : WFa a →
    ∃ a', as_Add a v = Ok (a', bool_decide (v ∉ abs a)) ∧ WFa a' ∧ abs a' = {[v]} ∪ abs a.
  Proof.
    destruct a as [s|s]; intros Hwf; cbn [as_Add].
    - destruct (ms_Add_spec s v) as [E1 E2]. destruct (ms_Add s v) as [s' b]. cbn in *. subst. by eexists.
    - destruct (ss_Add_spec WF SO s v Hwf) as (s' & E & H1 & H2). rewrite E. cbn. by exists (AS s').
  Qed.

  Lemma as_Remove_spec a v : WFa a →
    WFa (as_Remove a v).1 ∧ abs (as_Remove a v).1 = abs a ∖ {[v]} ∧ (as_Remove a v).2 = bool_decide (v ∈ abs a).
  Proof.
    destruct a as [s|s]; intros Hwf; cbn [as_Remove].
    - destruct (ms_Remove_spec s v) as [E1 E2]. destruct (ms_Remove s v) as [s' b]. done.
    - destruct (ss_Remove_spec WF SO s v Hwf) as (H1 & H2 & H3). destruct (ss_Remove s v) as [s' b]. done.
  Qed.

  Lemma as_Len_spec a order : WFa a → covers (abs a) order →
    WFa (as_Len a order).1 ∧ abs (as_Len a order).1 = abs a ∧ (as_Len a order).2 = Z.of_nat (size (abs a)).
  Proof.
    destruct a as [s|s]; intros Hwf Hc; cbn [as_Len].
    - done.
    - destruct (ss_Len_spec WF SO s order Hwf Hc) as (H1 & H2 & H3). destruct (ss_Len s order) as [s' n]. done.
  Qed.

  Lemma as_Slice_spec a order : WFa a →
    WFa (as_Slice a order).1 ∧ abs (as_Slice a order).1 = abs a ∧ (as_Slice a order).2 = visit (abs a) order.
  Proof.
    destruct a as [s|s]; intros Hwf; cbn [as_Slice].
    - by rewrite ms_Slice_spec.
    - destruct (ss_Slice_spec WF SO s order Hwf) as (H1 & H2 & H3). destruct (ss_Slice s order) as [s' n]. done.
  Qed.

  Lemma as_String_spec a order : WFa a →
    WFa (as_String a order).1 ∧ abs (as_String a order).1 = abs a ∧ (as_String a order).2 = toks_of (visit (abs a) order).
  Proof.
    destruct a as [s|s]; intros Hwf; cbn [as_String].
    - by rewrite ms_String_spec.
    - destruct (ss_String_spec WF SO s order Hwf) as (H1 & H2 & H3). destruct (ss_String s order) as [s' n]. done.
  Qed.

  Lemma as_Clone_spec a order : WFa a → covers (abs a) order →
    ∃ a' c, as_Clone a order = Ok (a', c) ∧ WFa a' ∧ abs a' = abs a ∧ WFa c ∧ abs c = abs a.
  Proof.
    destruct a as [s|s]; intros Hwf Hc; cbn [as_Clone].
    - exists (AM s), (AM (ms_Clone s order)). cbn. by rewrite ms_Clone_spec.
    - destruct (ss_Clone_spec WF SO s order Hwf Hc) as (s' & c & E & H1 & H2 & H3 & H4). rewrite E. cbn.
      by exists (AS s'), (AS c).
  Qed.

  Lemma as_AddSet_spec a b ob : WFa a → WFa b → covers (abs b) ob →
    ∃ a' b', as_AddSet a b ob = Ok (a', b', Z.of_nat (size (abs b ∖ abs a))) ∧
      WFa a' ∧ abs a' = abs a ∪ abs b ∧ WFa b' ∧ abs b' = abs b.
  Proof.
    destruct a as [s|s]; intros Hwfa Hwfb Hc; cbn [as_AddSet].
    - destruct (ms_AddSet_spec any_iface WFa abs any_iface_ok s b ob Hwfb Hc) as (H1 & H2 & H3 & H4).
      destruct (ms_AddSet any_iface s b ob) as [[b' s'] n]. cbn in *. subst. by exists (AM (s ∪ abs b)), b'.
    - destruct (ss_AddSet_spec WF SO any_iface WFa abs any_iface_ok s b ob Hwfa Hwfb Hc) as (b' & s' & E & H1 & H2 & H3 & H4).
      rewrite E. cbn. by exists (AS s'), b'.
  Qed.

  Lemma as_RemoveSet_spec a b ob : WFa a → WFa b → covers (abs b) ob →
    ∃ a' b', as_RemoveSet a b ob = (a', b', Z.of_nat (size (abs a ∩ abs b))) ∧
      WFa a' ∧ abs a' = abs a ∖ abs b ∧ WFa b' ∧ abs b' = abs b.
  Proof.
    destruct a as [s|s]; intros Hwfa Hwfb Hc; cbn [as_RemoveSet].
    - destruct (ms_RemoveSet_spec any_iface WFa abs any_iface_ok s b ob Hwfb Hc) as (H1 & H2 & H3 & H4).
      destruct (ms_RemoveSet any_iface s b ob) as [[b' s'] n]. cbn in *. subst. by exists (AM (s ∖ abs b)), b'.
    - destruct (ss_RemoveSet_spec WF SO any_iface WFa abs any_iface_ok s b ob Hwfa Hwfb Hc) as (H1 & H2 & H3 & H4 & H5).
      destruct (ss_RemoveSet any_iface s b ob) as [[b' s'] n]. cbn in *. subst. by exists (AS s'), b'.
  Qed.

  Lemma as_Bin_spec o a b oa ob : WFa a → WFa b → covers (abs a) oa → covers (abs b) ob →
    ∃ r a' b', as_Bin o a b oa ob = Ok (r, a', b') ∧
      WFa r ∧ abs r = set_bin o (abs a) (abs b) ∧ WFa a' ∧ abs a' = abs a ∧ WFa b' ∧ abs b' = abs b.
  Proof.
    destruct a as [s|s]; intros Hwfa Hwfb Hca Hcb; cbn [as_Bin].
    - destruct o.
      + destruct (ms_Union_spec any_iface WFa abs any_iface_ok s b oa ob Hwfb Hca Hcb) as (H1 & H2 & H3).
        destruct (ms_Union any_iface s b oa ob) as [b' r]. cbn in *. subst. by exists (AM (s ∪ abs b)), (AM s), b'.
      + destruct (ms_Intersect_spec any_iface WFa abs any_iface_ok s b oa Hwfb Hca) as (H1 & H2 & H3).
        destruct (ms_Intersect any_iface s b oa) as [b' r]. cbn in *. subst. by exists (AM (s ∩ abs b)), (AM s), b'.
      + destruct (ms_SetDiff_spec any_iface WFa abs any_iface_ok s b oa Hwfb Hca) as (H1 & H2 & H3).
        destruct (ms_SetDiff any_iface s b oa) as [b' r]. cbn in *. subst. by exists (AM (s ∖ abs b)), (AM s), b'.
      + destruct (ms_SymDiff_spec any_iface WFa abs any_iface_ok s b oa ob Hwfb Hca Hcb) as (H1 & H2 & H3).
        destruct (ms_SymDiff any_iface s b oa ob) as [b' r]. cbn in *. subst.
        by exists (AM ((s ∖ abs b) ∪ (abs b ∖ s))), (AM s), b'.
    - destruct o.
      + destruct (ss_Union_spec WF SO any_iface WFa abs any_iface_ok s b oa ob Hwfa Hwfb Hca Hcb)
          as (r & s' & b' & E & H1 & H2 & H3 & H4 & H5 & H6). rewrite E. cbn. by exists (AS r), (AS s'), b'.
      + destruct (ss_Intersect_spec WF SO any_iface WFa abs any_iface_ok s b oa Hwfa Hwfb Hca)
          as (r & s' & b' & E & H1 & H2 & H3 & H4 & H5 & H6). rewrite E. cbn. by exists (AS r), (AS s'), b'.
      + destruct (ss_SetDiff_spec WF SO any_iface WFa abs any_iface_ok s b oa Hwfa Hwfb Hca)
          as (r & s' & b' & E & H1 & H2 & H3 & H4 & H5 & H6). rewrite E. cbn. by exists (AS r), (AS s'), b'.
      + destruct (ss_SymDiff_spec WF SO any_iface WFa abs any_iface_ok s b oa ob Hwfa Hwfb Hca Hcb)
          as (r & s' & b' & E & H1 & H2 & H3 & H4 & H5 & H6). rewrite E. cbn. by exists (AS r), (AS s'), b'.
  Qed.
  (* ---- Range with a callback that says stop at its j-th call ---- *)
  Lemma stop_cb_spec (j : nat) vs (n : nat) (seen : list Z) : (j = 0 ∨ n < j)%nat →
    range_cb (stop_cb j) (n, seen) vs =
      let tk := match j with O => vs | _ => take (j - n) vs end in ((n + length tk)%nat, seen ++ tk).
  Proof.
    revert n seen. induction vs as [|v vs IH]; intros n seen Hj; cbn [range_cb].
    - cbn. destruct j; cbn; rewrite ?take_nil, app_nil_r; cbn; f_equal; lia.
    - unfold stop_cb at 1. cbn [negb]. destruct (Nat.eqb_spec (S n) j) as [<-|Hne]; cbn [negb].
      + replace (S n - n)%nat with 1%nat by lia. cbn. rewrite take_0. cbn. f_equal. lia.
      + rewrite IH by lia. destruct j as [|j']; cbn [length].
        * cbn. rewrite <-app_assoc. cbn. f_equal. lia.
        * replace (S j' - n)%nat with (S (j' - n)) by lia. cbn [take length].
          replace (S j' - S n)%nat with (j' - n)%nat by lia.
          rewrite <-app_assoc. cbn. f_equal. lia.
  Qed.

  Lemma as_Range_stop_spec a order j : WFa a →
    let r := as_Range a order (stop_cb j) (O, []) in
    WFa r.1 ∧ abs r.1 = abs a ∧
    r.2.2 = take_stop j (visit (abs a) order) ∧ r.2.1 = length (take_stop j (visit (abs a) order)).
  Proof.
    intros Hwf. destruct (as_Range_spec a order (stop_cb j) (O, []) Hwf) as (H1 & H2 & H3).
    split; [done|]. split; [done|]. cbn zeta. rewrite H3, stop_cb_spec by (destruct j; lia).
    cbn. unfold take_stop. replace (j - 0)%nat with j by lia. by destruct j.
  Qed.

  (* the number of calls Range makes: min j |s| (j >= 1), |s| (never stopping) *)
  Lemma take_stop_length X order j : covers X order →
    length (take_stop j (visit X order)) = match j with O => size X | _ => Nat.min j (size X) end.
  Proof.
    intros Hc. unfold take_stop. destruct j; [by apply visit_length|].
    by rewrite take_length, visit_length.
  Qed.

  (* ---- CartesianProduct ---- *)
  Lemma cp_inner_spec va vs (acc : list (Z * Z)) :
    range_cb (cp_inner va) acc vs = acc ++ map (λ vb, (va, vb)) vs.
  Proof.
    revert acc. induction vs as [|v vs IH]; intros acc; cbn [range_cb map]; [by rewrite app_nil_r|].
    cbn. rewrite IH, <-app_assoc. done.
  Qed.

  Lemma cp_outer_spec ob vs b (acc : list (Z * Z)) : WFa b →
    let r := range_cb (cp_outer ob) (b, acc) vs in
    WFa r.1 ∧ abs r.1 = abs b ∧
    r.2 = acc ++ flat_map (λ va, map (λ vb, (va, vb)) (visit (abs b) (ob va))) vs.
  Proof.
    revert b acc. induction vs as [|va vs IH]; intros b acc Hwf; cbn [range_cb flat_map].
    - cbn. by rewrite app_nil_r.
    - replace (cp_outer ob (b, acc) va) with (as_Range b (ob va) (cp_inner va) acc, true) by reflexivity.
      destruct (as_Range_spec b (ob va) (cp_inner va) acc Hwf) as (H1 & H2 & H3).
      destruct (as_Range b (ob va) (cp_inner va) acc) as [b' res]. cbn in H1, H2, H3. cbn iota beta.
      destruct (IH b' res H1) as (G1 & G2 & G3).
      split; [done|]. split; [congruence|]. rewrite G3, H3, cp_inner_spec, H2, <-app_assoc. done.
  Qed.

  Lemma CartesianProduct_spec a b oa ob : WFa a → WFa b →
    let r := CartesianProduct a b oa ob in
    WFa r.1.1 ∧ abs r.1.1 = abs a ∧ WFa r.1.2 ∧ abs r.1.2 = abs b ∧
    r.2 = cp_spec (abs a) (abs b) oa ob.
  Proof.
    intros Hwfa Hwfb. unfold CartesianProduct.
    destruct (as_Range_spec a oa (cp_outer ob) (b, []) Hwfa) as (H1 & H2 & H3).
    destruct (as_Range a oa (cp_outer ob) (b, [])) as [a' [b' res]]. cbn in H1, H2, H3.
    destruct (cp_outer_spec ob (visit (abs a) oa) b [] Hwfb) as (G1 & G2 & G3).
    rewrite <-H3 in G1, G2, G3. cbn in *. done.
  Qed.
  (* ---- histories ---- *)
  Definition rel (hs : list anyset) (Xs : list (gset Z)) : Prop :=
    Forall2 (λ a X, WFa a ∧ abs a = X) hs Xs.

  Lemma rel_lookup hs Xs h : rel hs Xs →
    match Xs !! h with
    | Some X => ∃ a, hs !! h = Some a ∧ WFa a ∧ abs a = X
    | None => hs !! h = None
    end.
  Proof.
    intros Hrel. destruct (Xs !! h) as [X|] eqn:E.
    - destruct (Forall2_lookup_r _ _ _ _ _ Hrel E) as (a & Ha & Hwf & Habs). by exists a.
    - apply lookup_ge_None. apply lookup_ge_None in E. by rewrite (Forall2_length _ _ _ Hrel).
  Qed.

  Lemma rel_upd hs Xs h a X : rel hs Xs → WFa a → abs a = X → rel (upd hs h a) (<[h := X]> Xs).
  Proof. intros. by apply Forall2_insert. Qed.

  Lemma rel_upd_same hs Xs h a X : rel hs Xs → Xs !! h = Some X → WFa a → abs a = X → rel (upd hs h a) Xs.
  Proof. intros Hrel E ? ?. rewrite <-(list_insert_id Xs h X E). by apply rel_upd. Qed.

  Lemma rel_snoc hs Xs a X : rel hs Xs → WFa a → abs a = X → rel (hs ++ [a]) (Xs ++ [X]).
  Proof. intros. apply Forall2_app; [done|]. by constructor. Qed.

  Lemma new_from_spec i ms (ss : result syncset) X :
    ms = X → (∃ s, ss = Ok s ∧ WF s ∧ sabs s = X) →
    ∃ a, new_from i ms ss = Ok a ∧ WFa a ∧ abs a = X.
  Proof.
    intros Hm (s & -> & Hwf & Hs). destruct i; cbn.
    - by exists (AM ms).
    - by exists (AS s).
  Qed.

  Lemma run_op_spec hs Xs o : rel hs Xs → orders_ok Xs o →
    match spec_op Xs o with
    | Some (Xs', v) => ∃ hs', run_op hs o = Some (Ok (hs', v)) ∧ rel hs' Xs'
    | None => run_op hs o = None
    end.
  Proof.
    intros Hrel Hord.
    assert (Hone : ∀ h, match Xs !! h with
                        | Some X => ∃ a, hs !! h = Some a ∧ WFa a ∧ abs a = X
                        | None => hs !! h = None end) by (intros; by apply rel_lookup).
    destruct o as [i|i l|i m|i m|h v|h v|h v|h o|h o|h o|h o j|h o|h g og|h g og|bo h g oh og|h g oh og];
      cbn [spec_op run_op].
    - (* new *) eexists. split; [done|]. apply rel_snoc; [done| |].
      + destruct i; cbn; [done|apply (so_WF_empty WF SO)].
      + destruct i; cbn; [done|]. apply (sabs_empty WF SO).
    - destruct (new_from_spec i (ms_NewSetFromSlice l) (ss_NewSetFromSlice l) (list_to_set l)) as (a & E & H1 & H2);
        [apply ms_NewSetFromSlice_spec|apply (ss_NewSetFromSlice_spec WF SO)|].
      rewrite E. cbn. eexists. split; [done|]. by apply rel_snoc.
    - destruct (new_from_spec i (ms_NewSetFromKeys m) (ss_NewSetFromKeys m) (list_to_set (map fst m))) as (a & E & H1 & H2);
        [apply ms_NewSetFromKeys_spec|apply (ss_NewSetFromKeys_spec WF SO)|].
      rewrite E. cbn. eexists. split; [done|]. by apply rel_snoc.
    - destruct (new_from_spec i (ms_NewSetFromValues m) (ss_NewSetFromValues m) (list_to_set (map snd m))) as (a & E & H1 & H2);
        [apply ms_NewSetFromValues_spec|apply (ss_NewSetFromValues_spec WF SO)|].
      rewrite E. cbn. eexists. split; [done|]. by apply rel_snoc.
    - (* add *) specialize (Hone h). destruct (Xs !! h) as [X|] eqn:EX; [|by rewrite Hone].
      destruct Hone as (a & -> & Hwf & <-).
      destruct (as_Add_spec a v Hwf) as (a' & E & H1 & H2). rewrite E. cbn.
      eexists. split; [done|]. by apply rel_upd.
    - (* remove *) specialize (Hone h). destruct (Xs !! h) as [X|] eqn:EX; [|by rewrite Hone].
      destruct Hone as (a & -> & Hwf & <-).
      destruct (as_Remove_spec a v Hwf) as (H1 & H2 & H3). destruct (as_Remove a v) as [a' b]. cbn in *. subst b.
      eexists. split; [done|]. by apply rel_upd.
    - (* has *) specialize (Hone h). destruct (Xs !! h) as [X|] eqn:EX; [|by rewrite Hone].
      destruct Hone as (a & -> & Hwf & <-).
      destruct (as_Has_spec a v Hwf) as (H1 & H2 & H3). destruct (as_Has a v) as [a' b]. cbn in *. subst b.
      eexists. split; [done|]. by eapply rel_upd_same.
    - (* len *) specialize (Hone h). unfold orders_ok, covers_at in Hord.
      destruct (Xs !! h) as [X|] eqn:EX; [|by rewrite Hone].
      destruct Hone as (a & -> & Hwf & <-).
      destruct (as_Len_spec a o Hwf Hord) as (H1 & H2 & H3). destruct (as_Len a o) as [a' n]. cbn in *. subst n.
      eexists. split; [done|]. by eapply rel_upd_same.
    - (* slice *) specialize (Hone h). destruct (Xs !! h) as [X|] eqn:EX; [|by rewrite Hone].
      destruct Hone as (a & -> & Hwf & <-).
      destruct (as_Slice_spec a o Hwf) as (H1 & H2 & H3). destruct (as_Slice a o) as [a' n]. cbn in *. subst n.
      eexists. split; [done|]. by eapply rel_upd_same.
    - (* string *) specialize (Hone h). destruct (Xs !! h) as [X|] eqn:EX; [|by rewrite Hone].
      destruct Hone as (a & -> & Hwf & <-).
      destruct (as_String_spec a o Hwf) as (H1 & H2 & H3). destruct (as_String a o) as [a' n]. cbn in *. subst n.
      eexists. split; [done|]. by eapply rel_upd_same.
    - (* range *) specialize (Hone h). destruct (Xs !! h) as [X|] eqn:EX; [|by rewrite Hone].
      destruct Hone as (a & -> & Hwf & <-).
      destruct (as_Range_stop_spec a o j Hwf) as (H1 & H2 & H3 & _).
      destruct (as_Range a o (stop_cb j) (0%nat, [])) as [a' [calls seen]]. cbn in *. subst seen.
      eexists. split; [done|]. by eapply rel_upd_same.
    - (* clone *) specialize (Hone h). unfold orders_ok, covers_at in Hord.
      destruct (Xs !! h) as [X|] eqn:EX; [|by rewrite Hone].
      destruct Hone as (a & -> & Hwf & <-).
      destruct (as_Clone_spec a o Hwf Hord) as (a' & c & E & H1 & H2 & H3 & H4). rewrite E. cbn.
      eexists. split; [done|]. apply rel_snoc; [|done|done]. by eapply rel_upd_same.
    - (* addset *) destruct (Nat.eqb_spec h g) as [->|Hne]; [done|].
      pose proof (Hone h) as Hh. pose proof (Hone g) as Hg. unfold orders_ok, covers_at in Hord.
      destruct (Xs !! h) as [X|] eqn:EX; [|by rewrite Hh].
      destruct Hh as (a & -> & Hwfa & <-).
      destruct (Xs !! g) as [Y|] eqn:EY; [|by rewrite Hg].
      destruct Hg as (b & -> & Hwfb & <-).
      destruct (as_AddSet_spec a b og Hwfa Hwfb Hord) as (a' & b' & E & H1 & H2 & H3 & H4). rewrite E. cbn.
      eexists. split; [done|]. eapply rel_upd_same; [by apply rel_upd| |done|done].
      by rewrite list_lookup_insert_ne.
    - (* removeset *) destruct (Nat.eqb_spec h g) as [->|Hne]; [done|].
      pose proof (Hone h) as Hh. pose proof (Hone g) as Hg. unfold orders_ok, covers_at in Hord.
      destruct (Xs !! h) as [X|] eqn:EX; [|by rewrite Hh].
      destruct Hh as (a & -> & Hwfa & <-).
      destruct (Xs !! g) as [Y|] eqn:EY; [|by rewrite Hg].
      destruct Hg as (b & -> & Hwfb & <-).
      destruct (as_RemoveSet_spec a b og Hwfa Hwfb Hord) as (a' & b' & E & H1 & H2 & H3 & H4). rewrite E. cbn.
      eexists. split; [done|]. eapply rel_upd_same; [by apply rel_upd| |done|done].
      by rewrite list_lookup_insert_ne.
    - (* binary *) destruct (Nat.eqb_spec h g) as [->|Hne]; [done|].
      pose proof (Hone h) as Hh. pose proof (Hone g) as Hg. destruct Hord as [Ho1 Ho2]. unfold covers_at in Ho1, Ho2.
      destruct (Xs !! h) as [X|] eqn:EX; [|by rewrite Hh].
      destruct Hh as (a & -> & Hwfa & <-).
      destruct (Xs !! g) as [Y|] eqn:EY; [|by rewrite Hg].
      destruct Hg as (b & -> & Hwfb & <-).
      destruct (as_Bin_spec bo a b oh og Hwfa Hwfb Ho1 Ho2)
        as (r & a' & b' & E & H1 & H2 & H3 & H4 & H5 & H6). rewrite E. cbn.
      eexists. split; [done|]. apply rel_snoc; [|done|done].
      eapply rel_upd_same; [by eapply rel_upd_same|done|done|done].
    - (* cartesian *) destruct (Nat.eqb_spec h g) as [->|Hne]; [done|].
      pose proof (Hone h) as Hh. pose proof (Hone g) as Hg.
      destruct (Xs !! h) as [X|] eqn:EX; [|by rewrite Hh].
      destruct Hh as (a & -> & Hwfa & <-).
      destruct (Xs !! g) as [Y|] eqn:EY; [|by rewrite Hg].
      destruct Hg as (b & -> & Hwfb & <-).
      destruct (CartesianProduct_spec a b oh og Hwfa Hwfb) as (H1 & H2 & H3 & H4 & H5).
      destruct (CartesianProduct a b oh og) as [[a' b'] l]. cbn in *. subst l.
      eexists. split; [done|]. eapply rel_upd_same; [by eapply rel_upd_same|done|done|done].
  Qed.

  Theorem run_ops_spec ops : ∀ hs Xs, rel hs Xs → all_orders_ok Xs ops →
    match spec_ops Xs ops with
    | Some (Xs', vs) => ∃ hs', run_ops hs ops = Some (Ok (hs', vs)) ∧ rel hs' Xs'
    | None => run_ops hs ops = None
    end.
  Proof.
    induction ops as [|o ops IH]; intros hs Xs Hrel Hord; cbn [spec_ops run_ops].
    - by exists hs.
    - destruct Hord as [Ho Hrest]. pose proof (run_op_spec hs Xs o Hrel Ho) as Hstep.
      destruct (spec_op Xs o) as [[Xs' v]|]; [|by rewrite Hstep].
      destruct Hstep as (hs' & -> & Hrel').
      specialize (IH hs' Xs' Hrel' Hrest).
      destruct (spec_ops Xs' ops) as [[Xs'' vs]|]; [|by rewrite IH].
      destruct IH as (hs'' & -> & Hrel''). by exists hs''.
  Qed.
End with_seq_proofs.
