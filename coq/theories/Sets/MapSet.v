(* Model of /repo/maps/set.go: type Set[T] map[T]struct{} with T = int.
   A Go map[int]struct{} is a [gset Z]. Every "for v := range s" takes the
   visit order as the explicit argument [order]: the loop reaches the members
   of s in the order in which they occur in [order] ([ms_iter]); Go guarantees
   that [order] lists every member exactly once (theorems assume exactly
   that). A method whose argument is a sets.Set receives it through
   [set_iface] (the argument may be either implementation).
   Definitions only. *)
From Typ Require Export Sets.Iface.
Local Open Scope Z_scope.

Notation mapset := (gset Z) (only parsing).

(* the values "for v := range s" reaches when the runtime iterates in [order] *)
Definition ms_iter (s : mapset) (order : list Z) : list Z := base.filter (λ v, v ∈ s) order.

(* Len *)
Definition ms_Len (s : mapset) : Z := Z.of_nat (size s).

(* Has *)
Definition ms_Has (s : mapset) (value : Z) : bool := bool_decide (value ∈ s).

(* Add: "if s.Has(value) { return false }; s[value] = struct{}{}; return true" *)
Definition ms_Add (s : mapset) (value : Z) : mapset * bool :=
  if ms_Has s value then (s, false) else ({[value]} ∪ s, true).

(* Remove: "if !s.Has(value) { return false }; delete(s, value); return true" *)
Definition ms_Remove (s : mapset) (value : Z) : mapset * bool :=
  if negb (ms_Has s value) then (s, false) else (s ∖ {[value]}, true).

(* Range: "for v := range s { if !f(v) { break } }" *)
Definition ms_Range {A} (s : mapset) (order : list Z) (f : A -> Z -> A * bool) (acc : A) : A :=
  range_cb f acc (ms_iter s order).

(* String *)
Definition ms_String (s : mapset) (order : list Z) : list tok :=
  let '(sb, _) := fold_left string_body (ms_iter s order) ([TOpen], false) in
  sb ++ [TClose].

(* Slice: "result := make([]T, 0, len(s)); for v := range s { result = append(result, v) }" *)
Definition ms_Slice (s : mapset) (order : list Z) : list Z :=
  fold_left (λ result v, result ++ [v]) (ms_iter s order) [].

(* Clone: "clone := make(Set[T]); for v := range s { clone.Add(v) }" *)
Definition ms_Clone (s : mapset) (order : list Z) : mapset :=
  fold_left (λ clone v, (ms_Add clone v).1) (ms_iter s order) ∅.

(* NewSetFromSlice / NewSetFromKeys / NewSetFromValues: "set := make(Set[E], 0);
   for ... { set.Add(v) }". The Go map argument of the last two is the list
   of its (key, value) pairs in visit order. *)
Definition ms_NewSetFromSlice (slice : list Z) : mapset :=
  fold_left (λ set v, (ms_Add set v).1) slice ∅.
Definition ms_NewSetFromKeys (m : list (Z * Z)) : mapset :=
  fold_left (λ set kv, (ms_Add set kv.1).1) m ∅.
Definition ms_NewSetFromValues (m : list (Z * Z)) : mapset :=
  fold_left (λ set kv, (ms_Add set kv.2).1) m ∅.

(* ---- methods with a sets.Set argument; results are (argument after, receiver after / result, ...) ---- *)

(* AddSet: callback locals (s, added) *)
Definition ms_AddSet_cb (acc : mapset * Z) (value : Z) : (mapset * Z) * bool :=
  let '(s, added) := acc in
  let '(s', b) := ms_Add s value in
  ((s', if b then added + 1 else added), true).
Definition ms_AddSet {T} (I : set_iface T) (s : mapset) (set : T) (oset : list Z) : T * mapset * Z :=
  let '(set', (s', added)) := if_Range I set oset ms_AddSet_cb (s, 0) in
  (set', s', added).

(* RemoveSet *)
Definition ms_RemoveSet_cb (acc : mapset * Z) (value : Z) : (mapset * Z) * bool :=
  let '(s, removed) := acc in
  let '(s', b) := ms_Remove s value in
  ((s', if b then removed + 1 else removed), true).
Definition ms_RemoveSet {T} (I : set_iface T) (s : mapset) (set : T) (oset : list Z) : T * mapset * Z :=
  let '(set', (s', removed)) := if_Range I set oset ms_RemoveSet_cb (s, 0) in
  (set', s', removed).

(* Intersect: "result := make(Set[T]); for v := range s { if other.Has(v) { result.Add(v) } }";
   loop locals (other, result) *)
Definition ms_Intersect_body {T} (I : set_iface T) (acc : T * mapset) (v : Z) : T * mapset :=
  let '(other, result) := acc in
  let '(other', h) := if_Has I other v in
  if h then (other', (ms_Add result v).1) else (other', result).
Definition ms_Intersect {T} (I : set_iface T) (s : mapset) (other : T) (os : list Z) : T * mapset :=
  fold_left (ms_Intersect_body I) (ms_iter s os) (other, ∅).

(* SetDiff: "... if !other.Has(v) { result.Add(v) }" *)
Definition ms_SetDiff_body {T} (I : set_iface T) (acc : T * mapset) (v : Z) : T * mapset :=
  let '(other, result) := acc in
  let '(other', h) := if_Has I other v in
  if negb h then (other', (ms_Add result v).1) else (other', result).
Definition ms_SetDiff {T} (I : set_iface T) (s : mapset) (other : T) (os : list Z) : T * mapset :=
  fold_left (ms_SetDiff_body I) (ms_iter s os) (other, ∅).

(* Union: "result := s.Clone(); result.AddSet(other); return result"
   (result has dynamic type maps.Set) *)
Definition ms_Union {T} (I : set_iface T) (s : mapset) (other : T) (os oother : list Z) : T * mapset :=
  let result := ms_Clone s os in
  let '(other', result', _) := ms_AddSet I result other oother in
  (other', result').

(* SymDiff: "result := s.SetDiff(other); other.Range(func(value T) bool {
   if !s.Has(value) { result.Add(value) }; return true }); return result";
   callback locals: result (s is only read) *)
Definition ms_SymDiff_cb (s : mapset) (result : mapset) (value : Z) : mapset * bool :=
  if negb (ms_Has s value) then ((ms_Add result value).1, true) else (result, true).
Definition ms_SymDiff {T} (I : set_iface T) (s : mapset) (other : T) (os oother : list Z) : T * mapset :=
  let '(other1, result) := ms_SetDiff I s other os in
  if_Range I other1 oother (ms_SymDiff_cb s) result.
