(* Lemmas about the model of maps.Set (Sets/MapSet.v). *)
From Typ Require Import Sets.MapSet.
Local Open Scope Z_scope.

Lemma ms_Add_spec (s : mapset) v :
  (ms_Add s v).1 = {[v]} ∪ s ∧ (ms_Add s v).2 = bool_decide (v ∉ s).
Proof.
  unfold ms_Add, ms_Has. destruct (decide (v ∈ s)) as [Hin|Hni].
  - rewrite bool_decide_true by done. cbn. split; [set_solver|]. by rewrite bool_decide_false by (intros ?; contradiction).
  - rewrite bool_decide_false by done. cbn. split; [done|]. by rewrite bool_decide_true.
Qed.
