(* Lemmas about the shared loop machinery (Sets/Iface.v) and about the model
   of maps.Set (Sets/MapSet.v). std++ style. *)
From Typ Require Import Sets.MapSet.
From stdpp Require Import gmap list.
Local Open Scope Z_scope.

(* ---- visit orders ---- *)

(* what Go promises about the iteration of a map with key set X *)
Definition covers (X : gset Z) (order : list Z) : Prop :=
  NoDup order ∧ ∀ v, v ∈ X → v ∈ order.

(* the members of X in the order in which [order] lists them *)
Definition visit (X : gset Z) (order : list Z) : list Z := filter (λ v, v ∈ X) order.

Lemma ms_iter_visit s order : ms_iter s order = visit s order.
Proof. reflexivity. Qed.

Lemma visit_NoDup X order : NoDup order → NoDup (visit X order).
Proof. apply NoDup_filter. Qed.

Lemma elem_of_visit X order v : covers X order → v ∈ visit X order ↔ v ∈ X.
Proof.
  intros [_ Hc]. unfold visit. rewrite elem_of_list_filter. naive_solver.
Qed.

Lemma visit_set X order : covers X order → list_to_set (visit X order) = X.
Proof.
  intros Hc. apply set_eq. intros v. rewrite elem_of_list_to_set. by apply elem_of_visit.
Qed.

Lemma visit_perm X order : covers X order → visit X order ≡ₚ elements X.
Proof.
  intros Hc. apply NoDup_Permutation.
  - apply visit_NoDup, Hc.
  - apply NoDup_elements.
  - intros v. rewrite elem_of_elements. by apply elem_of_visit.
Qed.

Lemma visit_length X order : covers X order → length (visit X order) = size X.
Proof. intros Hc. unfold size, set_size. cbn. by rewrite (visit_perm X order Hc). Qed.

Lemma covers_elements X : covers X (elements X).
Proof. split; [apply NoDup_elements|]. intros v. by rewrite elem_of_elements. Qed.

Lemma covers_perm X order : order ≡ₚ elements X → covers X order.
Proof.
  intros Hp. split.
  - rewrite Hp. apply NoDup_elements.
  - intros v Hv. rewrite Hp. by apply elem_of_elements.
Qed.

(* ---- range_cb ---- *)

Lemma range_cb_true {A} (f : A → Z → A * bool) acc vs :
  (∀ a v, (f a v).2 = true) →
  range_cb f acc vs = fold_left (λ a v, (f a v).1) vs acc.
Proof.
  intros Hf. revert acc. induction vs as [|v vs IH]; intros acc; [done|].
  cbn. specialize (Hf acc v). destruct (f acc v) as [acc' c]. cbn in *. subst c. apply IH.
Qed.

(* two callbacks that step in lockstep *)
Lemma range_cb_sim {A B} (R : A → B → Prop) (f : A → Z → A * bool) (g : B → Z → B * bool) vs :
  (∀ a b v, R a b → R (f a v).1 (g b v).1 ∧ (f a v).2 = (g b v).2) →
  ∀ a b, R a b → R (range_cb f a vs) (range_cb g b vs).
Proof.
  intros Hs. induction vs as [|v vs IH]; intros a b HR; [done|].
  cbn. destruct (Hs a b v HR) as [H1 H2].
  destruct (f a v) as [a' c], (g b v) as [b' c']. cbn in *. subst c'.
  destruct c; [by apply IH|done].
Qed.

(* the user callback of the history interpreter stops at its j-th call *)
Definition take_stop (j : nat) (vs : list Z) : list Z :=
  match j with O => vs | _ => take j vs end.

(* ---- Has / Add / Remove ---- *)

Lemma ms_Has_spec (s : mapset) v : ms_Has s v = bool_decide (v ∈ s).
Proof. reflexivity. Qed.

Lemma ms_Add_spec (s : mapset) v :
  (ms_Add s v).1 = {[v]} ∪ s ∧ (ms_Add s v).2 = bool_decide (v ∉ s).
Proof.
  unfold ms_Add, ms_Has. destruct (decide (v ∈ s)) as [Hin|Hni].
  - rewrite bool_decide_true by done. cbn. split; [set_solver|]. by rewrite bool_decide_false by (intros ?; contradiction).
  - rewrite bool_decide_false by done. cbn. split; [done|]. by rewrite bool_decide_true.
Qed.

Lemma ms_Remove_spec (s : mapset) v :
  (ms_Remove s v).1 = s ∖ {[v]} ∧ (ms_Remove s v).2 = bool_decide (v ∈ s).
Proof.
  unfold ms_Remove, ms_Has. destruct (decide (v ∈ s)) as [Hin|Hni].
  - rewrite bool_decide_true by done. cbn. done.
  - rewrite bool_decide_false by done. cbn. split; [set_solver|done].
Qed.

(* ---- the loops, at the level of the visited list ---- *)

Lemma add_all_spec vs (s : mapset) :
  fold_left (λ set v, (ms_Add set v).1) vs s = s ∪ list_to_set vs.
Proof.
  revert s. induction vs as [|v vs IH]; intros s; cbn.
  - set_solver.
  - rewrite IH. rewrite (proj1 (ms_Add_spec s v)). set_solver.
Qed.

Lemma AddSet_cb_spec vs (s : mapset) n : NoDup vs →
  range_cb ms_AddSet_cb (s, n) vs = (s ∪ list_to_set vs, n + Z.of_nat (size (list_to_set vs ∖ s : gset Z))).
Proof.
  intros Hnd. revert s n. induction Hnd as [|v vs Hv Hnd IH]; intros s n; cbn [range_cb].
  - cbn. f_equal; [set_solver|]. replace (∅ ∖ s) with (∅ : gset Z) by set_solver. rewrite size_empty. lia.
  - unfold ms_AddSet_cb at 1. destruct (ms_Add_spec s v) as [E1 E2].
    destruct (ms_Add s v) as [s' b]. cbn in E1, E2. subst s' b.
    rewrite IH. cbn [list_to_set]. f_equal; [set_solver|].
    destruct (decide (v ∈ s)) as [Hin|Hni].
    + rewrite bool_decide_false by (intros ?; contradiction).
      f_equal. f_equal. f_equal. set_solver.
    + rewrite bool_decide_true by done.
      replace (({[v]} ∪ list_to_set vs) ∖ s) with ({[v]} ∪ (list_to_set vs ∖ ({[v]} ∪ s)) : gset Z).
      2:{ apply set_eq. intros x. rewrite !elem_of_union, !elem_of_difference, !elem_of_union, !elem_of_singleton.
          split; [intros [->|[? ?]]|intros [[->|?] ?]]; try tauto.
          destruct (decide (x = v)); tauto. }
      rewrite (size_union ({[v]} : gset Z) (list_to_set vs ∖ ({[v]} ∪ s))) by set_solver. rewrite size_singleton. lia.
Qed.

Lemma RemoveSet_cb_spec vs (s : mapset) n : NoDup vs →
  range_cb ms_RemoveSet_cb (s, n) vs = (s ∖ list_to_set vs, n + Z.of_nat (size (s ∩ list_to_set vs : gset Z))).
Proof.
  intros Hnd. revert s n. induction Hnd as [|v vs Hv Hnd IH]; intros s n; cbn [range_cb].
  - cbn. f_equal; [set_solver|]. replace (s ∩ ∅) with (∅ : gset Z) by set_solver. rewrite size_empty. lia.
  - unfold ms_RemoveSet_cb at 1. destruct (ms_Remove_spec s v) as [E1 E2].
    destruct (ms_Remove s v) as [s' b]. cbn in E1, E2. subst s' b.
    rewrite IH. cbn [list_to_set]. f_equal; [set_solver|].
    assert (Hv' : v ∉ (list_to_set vs : gset Z)) by (by rewrite elem_of_list_to_set).
    destruct (decide (v ∈ s)) as [Hin|Hni].
    + rewrite bool_decide_true by done.
      replace (s ∩ ({[v]} ∪ list_to_set vs)) with ({[v]} ∪ ((s ∖ {[v]}) ∩ list_to_set vs) : gset Z).
      2:{ apply set_eq. intros x. rewrite !elem_of_union, !elem_of_intersection, !elem_of_difference, !elem_of_union, !elem_of_singleton.
          split; [intros [->|[[? ?] ?]]|intros [? [->|?]]]; try tauto.
          destruct (decide (x = v)); [subst; tauto|tauto]. }
      rewrite (size_union ({[v]} : gset Z) ((s ∖ {[v]}) ∩ list_to_set vs)) by set_solver. rewrite size_singleton. lia.
    + rewrite bool_decide_false by done.
      f_equal. f_equal. f_equal. set_solver.
Qed.

(* ---- observers and constructors ---- *)

Lemma ms_Len_spec (s : mapset) : ms_Len s = Z.of_nat (size s).
Proof. reflexivity. Qed.

Lemma snoc_all_spec (vs acc : list Z) : fold_left (λ result v, result ++ [v]) vs acc = acc ++ vs.
Proof.
  revert acc. induction vs as [|v vs IH]; intros acc; cbn.
  - by rewrite app_nil_r.
  - rewrite IH. by rewrite <-app_assoc.
Qed.

Lemma ms_Slice_spec (s : mapset) order : ms_Slice s order = visit s order.
Proof. unfold ms_Slice. by rewrite snoc_all_spec. Qed.

(* the text of String for a visit sequence *)
Fixpoint toks_tail (vs : list Z) : list tok :=
  match vs with [] => [] | v :: vs' => TSpace :: TVal v :: toks_tail vs' end.
Definition toks_of (vs : list Z) : list tok :=
  TOpen :: match vs with [] => [] | v :: vs' => TVal v :: toks_tail vs' end ++ [TClose].

Lemma string_body_tail vs sb :
  fold_left string_body vs (sb, true) = (sb ++ toks_tail vs, true).
Proof.
  revert sb. induction vs as [|v vs IH]; intros sb; cbn.
  - by rewrite app_nil_r.
  - rewrite IH. f_equal. rewrite <-!app_assoc. done.
Qed.

Lemma string_body_spec vs :
  (fold_left string_body vs ([TOpen], false)).1 ++ [TClose] = toks_of vs.
Proof.
  destruct vs as [|v vs]; [done|]. cbn. rewrite string_body_tail. cbn. done.
Qed.

Lemma ms_String_spec (s : mapset) order : ms_String s order = toks_of (visit s order).
Proof.
  unfold ms_String. rewrite <-string_body_spec, ms_iter_visit.
  by destruct (fold_left string_body (visit s order) ([TOpen], false)).
Qed.

Lemma ms_Clone_spec (s : mapset) order : covers s order → ms_Clone s order = s.
Proof.
  intros Hc. unfold ms_Clone. rewrite add_all_spec, ms_iter_visit, visit_set by done. set_solver.
Qed.

Lemma ms_NewSetFromSlice_spec l : ms_NewSetFromSlice l = list_to_set l.
Proof. unfold ms_NewSetFromSlice. rewrite add_all_spec. set_solver. Qed.

Lemma add_all_map {B} (g : B → Z) (m : list B) (s : mapset) :
  fold_left (λ set kv, (ms_Add set (g kv)).1) m s = fold_left (λ set v, (ms_Add set v).1) (map g m) s.
Proof. revert s. induction m as [|x m IH]; intros s; cbn; [done|apply IH]. Qed.

Lemma ms_NewSetFromKeys_spec m : ms_NewSetFromKeys m = list_to_set (map fst m).
Proof. unfold ms_NewSetFromKeys. rewrite (add_all_map fst), add_all_spec. set_solver. Qed.

Lemma ms_NewSetFromValues_spec m : ms_NewSetFromValues m = list_to_set (map snd m).
Proof. unfold ms_NewSetFromValues. rewrite (add_all_map snd), add_all_spec. set_solver. Qed.

(* ---- what a well-behaved sets.Set argument does ---- *)

Record iface_ok {T} (I : set_iface T) (wfT : T → Prop) (absT : T → gset Z) : Prop := {
  ok_Has t v : wfT t →
    wfT (if_Has I t v).1 ∧ absT (if_Has I t v).1 = absT t ∧ (if_Has I t v).2 = bool_decide (v ∈ absT t);
  ok_Range A t order (f : A → Z → A * bool) acc : wfT t →
    wfT (if_Range I t order f acc).1 ∧ absT (if_Range I t order f acc).1 = absT t ∧
    (if_Range I t order f acc).2 = range_cb f acc (visit (absT t) order)
}.

Lemma SymDiff_cb_spec (s : mapset) vs (result : mapset) :
  range_cb (ms_SymDiff_cb s) result vs = result ∪ (list_to_set vs ∖ s).
Proof.
  revert result. induction vs as [|v vs IH]; intros result; cbn [range_cb].
  - cbn. set_solver.
  - unfold ms_SymDiff_cb at 1. unfold ms_Has. case_bool_decide as Hin; cbn [negb].
    + rewrite IH. cbn. set_solver.
    + rewrite IH. rewrite (proj1 (ms_Add_spec result v)). cbn. set_solver.
Qed.

Section with_iface.
  Context {T} (I : set_iface T) (wfT : T → Prop) (absT : T → gset Z) (HI : iface_ok I wfT absT).

  Lemma ms_AddSet_spec (s : mapset) set oset : wfT set → covers (absT set) oset →
    let r := ms_AddSet I s set oset in
    wfT r.1.1 ∧ absT r.1.1 = absT set ∧ r.1.2 = s ∪ absT set ∧ r.2 = Z.of_nat (size (absT set ∖ s)).
  Proof.
    intros Hwf Hc. unfold ms_AddSet.
    destruct (ok_Range _ _ _ HI _ set oset ms_AddSet_cb (s, 0) Hwf) as (H1 & H2 & H3).
    destruct (if_Range I set oset ms_AddSet_cb (s, 0)) as [set' [s' added]]. cbn in *.
    rewrite AddSet_cb_spec in H3 by (apply visit_NoDup, Hc). rewrite visit_set in H3 by done.
    injection H3 as -> ->. done.
  Qed.

  Lemma ms_RemoveSet_spec (s : mapset) set oset : wfT set → covers (absT set) oset →
    let r := ms_RemoveSet I s set oset in
    wfT r.1.1 ∧ absT r.1.1 = absT set ∧ r.1.2 = s ∖ absT set ∧ r.2 = Z.of_nat (size (s ∩ absT set)).
  Proof.
    intros Hwf Hc. unfold ms_RemoveSet.
    destruct (ok_Range _ _ _ HI _ set oset ms_RemoveSet_cb (s, 0) Hwf) as (H1 & H2 & H3).
    destruct (if_Range I set oset ms_RemoveSet_cb (s, 0)) as [set' [s' removed]]. cbn in *.
    rewrite RemoveSet_cb_spec in H3 by (apply visit_NoDup, Hc). rewrite visit_set in H3 by done.
    injection H3 as -> ->. done.
  Qed.

  (* the loop of Intersect / SetDiff over a visit sequence *)
  Lemma Intersect_body_spec vs other (acc : mapset) : wfT other →
    let r := fold_left (ms_Intersect_body I) vs (other, acc) in
    wfT r.1 ∧ absT r.1 = absT other ∧ r.2 = acc ∪ (list_to_set vs ∩ absT other).
  Proof.
    revert other acc. induction vs as [|v vs IH]; intros other acc Hwf; cbn.
    - split; [done|]. split; [done|]. set_solver.
    - destruct (ok_Has _ _ _ HI other v Hwf) as (H1 & H2 & H3).
      destruct (if_Has I other v) as [other' h]. cbn in H1, H2, H3. subst h.
      destruct (IH other' (if bool_decide (v ∈ absT other) then (ms_Add acc v).1 else acc) H1) as (G1 & G2 & G3).
      case_bool_decide as Hin; cbn; (split; [done|]; split; [congruence|]); rewrite G3, H2.
      + rewrite (proj1 (ms_Add_spec acc v)). set_solver.
      + set_solver.
  Qed.

  Lemma SetDiff_body_spec vs other (acc : mapset) : wfT other →
    let r := fold_left (ms_SetDiff_body I) vs (other, acc) in
    wfT r.1 ∧ absT r.1 = absT other ∧ r.2 = acc ∪ (list_to_set vs ∖ absT other).
  Proof.
    revert other acc. induction vs as [|v vs IH]; intros other acc Hwf; cbn.
    - split; [done|]. split; [done|]. set_solver.
    - destruct (ok_Has _ _ _ HI other v Hwf) as (H1 & H2 & H3).
      destruct (if_Has I other v) as [other' h]. cbn in H1, H2, H3. subst h.
      destruct (decide (v ∈ absT other)) as [Hin|Hni];
        [rewrite bool_decide_true by done|rewrite bool_decide_false by done]; cbn [negb].
      + destruct (IH other' acc H1) as (G1 & G2 & G3).
        split; [done|]. split; [congruence|]. rewrite G3, H2. set_solver.
      + destruct (IH other' (ms_Add acc v).1 H1) as (G1 & G2 & G3).
        split; [done|]. split; [congruence|]. rewrite G3, H2.
        rewrite (proj1 (ms_Add_spec acc v)). set_solver.
  Qed.

  Lemma ms_Intersect_spec (s : mapset) other os : wfT other → covers s os →
    let r := ms_Intersect I s other os in
    wfT r.1 ∧ absT r.1 = absT other ∧ r.2 = s ∩ absT other.
  Proof.
    intros Hwf Hc. unfold ms_Intersect. rewrite ms_iter_visit.
    destruct (Intersect_body_spec (visit s os) other ∅ Hwf) as (H1 & H2 & H3).
    split; [done|]. split; [done|]. rewrite H3, visit_set by done. set_solver.
  Qed.

  Lemma ms_SetDiff_spec (s : mapset) other os : wfT other → covers s os →
    let r := ms_SetDiff I s other os in
    wfT r.1 ∧ absT r.1 = absT other ∧ r.2 = s ∖ absT other.
  Proof.
    intros Hwf Hc. unfold ms_SetDiff. rewrite ms_iter_visit.
    destruct (SetDiff_body_spec (visit s os) other ∅ Hwf) as (H1 & H2 & H3).
    split; [done|]. split; [done|]. rewrite H3, visit_set by done. set_solver.
  Qed.

  Lemma ms_Union_spec (s : mapset) other os oother : wfT other → covers s os → covers (absT other) oother →
    let r := ms_Union I s other os oother in
    wfT r.1 ∧ absT r.1 = absT other ∧ r.2 = s ∪ absT other.
  Proof.
    intros Hwf Hcs Hco. unfold ms_Union. rewrite ms_Clone_spec by done.
    destruct (ms_AddSet_spec s other oother Hwf Hco) as (H1 & H2 & H3 & _).
    destruct (ms_AddSet I s other oother) as [[other' result'] n]. done.
  Qed.

  Lemma ms_SymDiff_spec (s : mapset) other os oother : wfT other → covers s os → covers (absT other) oother →
    let r := ms_SymDiff I s other os oother in
    wfT r.1 ∧ absT r.1 = absT other ∧ r.2 = (s ∖ absT other) ∪ (absT other ∖ s).
  Proof.
    intros Hwf Hcs Hco. unfold ms_SymDiff.
    destruct (ms_SetDiff_spec s other os Hwf Hcs) as (H1 & H2 & H3).
    destruct (ms_SetDiff I s other os) as [other1 result]. cbn in H1, H2, H3.
    destruct (ok_Range _ _ _ HI _ other1 oother (ms_SymDiff_cb s) result H1) as (G1 & G2 & G3).
    split; [done|]. split; [congruence|]. rewrite G3, SymDiff_cb_spec, H2, visit_set, H3 by done. done.
  Qed.
End with_iface.
