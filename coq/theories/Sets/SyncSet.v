(* Model of /repo/sync2/set.go: type Set[T] struct{ m Map[T, struct{}] } with
   T = int, on the sequential big-step model of sync2.Map (SyncMap/Seq.v). The
   zero Set is [empty_mstate]; struct{}{} is the value 0. Every method is the
   Map calls it makes, run to completion; Range/Len/Slice/String go through
   Map.Range, whose promotion of the dirty map is a visible change of the
   state, and Has through Map.Load, whose miss counter is one too.
   [order] is the visit order of "for k, e := range read.m" inside Map.Range.
   LoadOrStore can panic in the model of Map (assignment to a nil dirty map);
   that is propagated as [Panic] (the theorems show it never happens from a
   well-formed state). Definitions only. *)
From Typ Require Export Sets.Iface SyncMap.Seq.
Local Open Scope Z_scope.

Notation syncset := mstate (only parsing).

(* Has: "_, has := s.m.Load(value)" *)
Definition ss_Has (s : syncset) (value : Z) : syncset * bool :=
  let '(s', r) := Load s value in
  (s', match r with Some _ => true | None => false end).

(* Add: "_, loaded := s.m.LoadOrStore(value, struct{}{}); return !loaded" *)
Definition ss_Add (s : syncset) (value : Z) : result (syncset * bool) :=
  do r <- LoadOrStore s value 0;
  let '(s', _, loaded) := r in Ok (s', negb loaded).

(* Remove: "_, loaded := s.m.LoadAndDelete(value); return loaded" *)
Definition ss_Remove (s : syncset) (value : Z) : syncset * bool :=
  let '(s', r) := LoadAndDelete s value in
  (s', match r with Some _ => true | None => false end).

(* Range: "s.m.Range(func(v T, _ struct{}) bool { return f(v) })".
   [Seq.Range s order None] is the promotion plus the pairs the loop of
   Map.Range reaches when nothing stops it; the callback sees them one by one
   until it returns false ([range_cb]). The callbacks of this file never touch
   the set being ranged (receiver and argument are different objects, see the
   assumptions of C03), so the pairs do not depend on what the callback does. *)
Definition ss_Range {A} (s : syncset) (order : list Z) (f : A -> Z -> A * bool) (acc : A) : syncset * A :=
  let '(s', pairs) := Range s order None in
  (s', range_cb f acc (map fst pairs)).

(* Len: "var count int; s.Range(func(T) bool { count++; return true })" *)
Definition ss_Len (s : syncset) (order : list Z) : syncset * Z :=
  ss_Range s order (λ count _, (count + 1, true)) 0.

(* Slice: "var result []T; s.m.Range(func(key T, _ struct{}) bool { result = append(result, key); return true })" *)
Definition ss_Slice (s : syncset) (order : list Z) : syncset * list Z :=
  let '(s', pairs) := Range s order None in
  (s', range_cb (λ result key, (result ++ [key], true)) [] (map fst pairs)).

(* String *)
Definition ss_String (s : syncset) (order : list Z) : syncset * list tok :=
  let '(s', (sb, _)) := ss_Range s order (λ acc value, (string_body acc value, true)) ([TOpen], false) in
  (s', sb ++ [TClose]).

(* a *sync2.Set passed as a sets.Set *)
Definition ss_iface : set_iface syncset := SetIface syncset ss_Has (λ A, @ss_Range A).

(* AddSet: callback locals (s, added); a panic of Add unwinds through Range *)
Definition ss_AddSet_cb (acc : result (syncset * Z)) (value : Z) : result (syncset * Z) * bool :=
  match acc with
  | Ok (s, added) =>
      match ss_Add s value with
      | Ok (s', b) => (Ok (s', if b then added + 1 else added), true)
      | Panic k => (Panic k, false)
      end
  | Panic k => (Panic k, false)
  end.
Definition ss_AddSet {T} (I : set_iface T) (s : syncset) (set : T) (oset : list Z) : result (T * syncset * Z) :=
  let '(set', r) := if_Range I set oset ss_AddSet_cb (Ok (s, 0)) in
  do sa <- r; Ok (set', sa.1, sa.2).

(* RemoveSet *)
Definition ss_RemoveSet_cb (acc : syncset * Z) (value : Z) : (syncset * Z) * bool :=
  let '(s, removed) := acc in
  let '(s', b) := ss_Remove s value in
  ((s', if b then removed + 1 else removed), true).
Definition ss_RemoveSet {T} (I : set_iface T) (s : syncset) (set : T) (oset : list Z) : T * syncset * Z :=
  let '(set', (s', removed)) := if_Range I set oset ss_RemoveSet_cb (s, 0) in
  (set', s', removed).

(* Clone: "var clone Set[T]; clone.AddSet(s); return &clone": (s after, clone) *)
Definition ss_Clone (s : syncset) (os : list Z) : result (syncset * syncset) :=
  do r <- ss_AddSet ss_iface empty_mstate s os;
  Ok (r.1.1, r.1.2).

(* NewSetFromSlice / Keys / Values: "var set Set[E]; for ... { set.Add(v) }; return &set" *)
Definition ss_add_step (acc : result syncset) (v : Z) : result syncset :=
  do set <- acc; do r <- ss_Add set v; Ok r.1.
Definition ss_NewSetFromSlice (slice : list Z) : result syncset :=
  fold_left ss_add_step slice (Ok empty_mstate).
Definition ss_NewSetFromKeys (m : list (Z * Z)) : result syncset :=
  fold_left (λ acc kv, ss_add_step acc kv.1) m (Ok empty_mstate).
Definition ss_NewSetFromValues (m : list (Z * Z)) : result syncset :=
  fold_left (λ acc kv, ss_add_step acc kv.2) m (Ok empty_mstate).

(* Intersect: "var result Set[T]; s.Range(func(value T) bool { if other.Has(value)
   { result.Add(value) }; return true }); return &result"; callback locals (other, result).
   Result: (result, s after, other after). *)
Definition ss_Intersect_cb {T} (I : set_iface T) (acc : result (T * syncset)) (value : Z) : result (T * syncset) * bool :=
  match acc with
  | Ok (other, result) =>
      let '(other', h) := if_Has I other value in
      if h then
        match ss_Add result value with
        | Ok (result', _) => (Ok (other', result'), true)
        | Panic k => (Panic k, false)
        end
      else (Ok (other', result), true)
  | Panic k => (Panic k, false)
  end.
Definition ss_Intersect {T} (I : set_iface T) (s : syncset) (other : T) (os : list Z) : result (syncset * syncset * T) :=
  let '(s', r) := ss_Range s os (ss_Intersect_cb I) (Ok (other, empty_mstate)) in
  do orr <- r; Ok (orr.2, s', orr.1).

(* SetDiff: "... if !other.Has(v) { result.Add(v) } ..." *)
Definition ss_SetDiff_cb {T} (I : set_iface T) (acc : result (T * syncset)) (v : Z) : result (T * syncset) * bool :=
  match acc with
  | Ok (other, result) =>
      let '(other', h) := if_Has I other v in
      if negb h then
        match ss_Add result v with
        | Ok (result', _) => (Ok (other', result'), true)
        | Panic k => (Panic k, false)
        end
      else (Ok (other', result), true)
  | Panic k => (Panic k, false)
  end.
Definition ss_SetDiff {T} (I : set_iface T) (s : syncset) (other : T) (os : list Z) : result (syncset * syncset * T) :=
  let '(s', r) := ss_Range s os (ss_SetDiff_cb I) (Ok (other, empty_mstate)) in
  do orr <- r; Ok (orr.2, s', orr.1).

(* Union: "result := s.Clone(); result.AddSet(other); return result"
   (result has dynamic type *sync2.Set) *)
Definition ss_Union {T} (I : set_iface T) (s : syncset) (other : T) (os oother : list Z) : result (syncset * syncset * T) :=
  do c <- ss_Clone s os;
  let '(s', result) := c in
  do r <- ss_AddSet I result other oother;
  Ok (r.1.2, s', r.1.1).

(* SymDiff: "result := s.SetDiff(other); other.Range(func(v T) bool { if !s.Has(v)
   { result.Add(v) }; return true }); return result"; callback locals (s, result):
   s.Has is a Load on s and may change its miss counter / promote. *)
Definition ss_SymDiff_cb (acc : result (syncset * syncset)) (v : Z) : result (syncset * syncset) * bool :=
  match acc with
  | Ok (s, result) =>
      let '(s', h) := ss_Has s v in
      if negb h then
        match ss_Add result v with
        | Ok (result', _) => (Ok (s', result'), true)
        | Panic k => (Panic k, false)
        end
      else (Ok (s', result), true)
  | Panic k => (Panic k, false)
  end.
Definition ss_SymDiff {T} (I : set_iface T) (s : syncset) (other : T) (os oother : list Z) : result (syncset * syncset * T) :=
  do d <- ss_SetDiff I s other os;
  let '(result, s1, other1) := d in
  let '(other2, r) := if_Range I other1 oother ss_SymDiff_cb (Ok (s1, result)) in
  do sr <- r; Ok (sr.2, sr.1, other2).

(* the pairs Map.Range reaches, in terms of the abstraction (interface of SyncMap/SeqProofs.v) *)
Definition live_pairs (s : mstate) (order : list Z) : list (Z * Z) :=
  omap (fun k => match abs_lookup s k with Some v => Some (k, v) | None => None end) order.
