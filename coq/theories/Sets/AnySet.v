(* A sets.Set[int] value is one of the two implementations; calling a method
   of the interface dispatches on the receiver's dynamic type, and the
   argument of a binary method is again an interface value, so all four
   receiver/argument pairings are instances of the functions below.
   Also: sets.CartesianProduct (/repo/sets/sets.go), and the interpreter of
   construction histories over a table of handles that both the history
   theorem and the correspondence check use. Definitions only.

   Receiver and argument are assumed to be different objects (a.Union(a) is
   not an instance: the functional model threads two separate states). *)
From Typ Require Export Sets.MapSet Sets.SyncSet.
Local Open Scope Z_scope.

Inductive anyset := AM (s : mapset) | AS (s : syncset).

(* ---- dynamic dispatch ---- *)
Definition as_Has (a : anyset) (v : Z) : anyset * bool :=
  match a with
  | AM s => (AM s, ms_Has s v)
  | AS s => let '(s', b) := ss_Has s v in (AS s', b)
  end.
Definition as_Range {A} (a : anyset) (order : list Z) (f : A -> Z -> A * bool) (acc : A) : anyset * A :=
  match a with
  | AM s => (AM s, ms_Range s order f acc)
  | AS s => let '(s', r) := ss_Range s order f acc in (AS s', r)
  end.
Definition any_iface : set_iface anyset := SetIface anyset as_Has (λ A, @as_Range A).

Definition as_Add (a : anyset) (v : Z) : result (anyset * bool) :=
  match a with
  | AM s => let '(s', b) := ms_Add s v in Ok (AM s', b)
  | AS s => do r <- ss_Add s v; Ok (AS r.1, r.2)
  end.
Definition as_Remove (a : anyset) (v : Z) : anyset * bool :=
  match a with
  | AM s => let '(s', b) := ms_Remove s v in (AM s', b)
  | AS s => let '(s', b) := ss_Remove s v in (AS s', b)
  end.
Definition as_Len (a : anyset) (order : list Z) : anyset * Z :=
  match a with
  | AM s => (AM s, ms_Len s)
  | AS s => let '(s', n) := ss_Len s order in (AS s', n)
  end.
Definition as_Slice (a : anyset) (order : list Z) : anyset * list Z :=
  match a with
  | AM s => (AM s, ms_Slice s order)
  | AS s => let '(s', l) := ss_Slice s order in (AS s', l)
  end.
Definition as_String (a : anyset) (order : list Z) : anyset * list tok :=
  match a with
  | AM s => (AM s, ms_String s order)
  | AS s => let '(s', l) := ss_String s order in (AS s', l)
  end.
(* (receiver after, clone) *)
Definition as_Clone (a : anyset) (order : list Z) : result (anyset * anyset) :=
  match a with
  | AM s => Ok (AM s, AM (ms_Clone s order))
  | AS s => do r <- ss_Clone s order; Ok (AS r.1, AS r.2)
  end.
(* (receiver after, argument after, count) *)
Definition as_AddSet (a b : anyset) (ob : list Z) : result (anyset * anyset * Z) :=
  match a with
  | AM s => let '(b', s', n) := ms_AddSet any_iface s b ob in Ok (AM s', b', n)
  | AS s => do r <- ss_AddSet any_iface s b ob; Ok (AS r.1.2, r.1.1, r.2)
  end.
Definition as_RemoveSet (a b : anyset) (ob : list Z) : anyset * anyset * Z :=
  match a with
  | AM s => let '(b', s', n) := ms_RemoveSet any_iface s b ob in (AM s', b', n)
  | AS s => let '(b', s', n) := ss_RemoveSet any_iface s b ob in (AS s', b', n)
  end.

Inductive binop := BUnion | BIntersect | BSetDiff | BSymDiff.

(* (result, receiver after, argument after); oa / ob: visit orders of the
   iterations over a / over b (each operation iterates each operand at most once) *)
Definition as_Bin (o : binop) (a b : anyset) (oa ob : list Z) : result (anyset * anyset * anyset) :=
  match a with
  | AM s =>
      let '(b', r) :=
        match o with
        | BUnion => ms_Union any_iface s b oa ob
        | BIntersect => ms_Intersect any_iface s b oa
        | BSetDiff => ms_SetDiff any_iface s b oa
        | BSymDiff => ms_SymDiff any_iface s b oa ob
        end in
      Ok (AM r, AM s, b')
  | AS s =>
      do x <- match o with
              | BUnion => ss_Union any_iface s b oa ob
              | BIntersect => ss_Intersect any_iface s b oa
              | BSetDiff => ss_SetDiff any_iface s b oa
              | BSymDiff => ss_SymDiff any_iface s b oa ob
              end;
      Ok (AS x.1.1, AS x.1.2, x.2)
  end.

(* sets.CartesianProduct: "a.Range(func(valueA) bool { b.Range(func(valueB) bool {
   result = append(result, Product{valueA, valueB}); return true }); return true })".
   Outer callback locals (b, result). Every inner Range is a new iteration of
   b's map with its own visit order: [ob valueA]. *)
Definition cp_inner (valueA : Z) (result : list (Z * Z)) (valueB : Z) : list (Z * Z) * bool :=
  (result ++ [(valueA, valueB)], true).
Definition cp_outer (ob : Z -> list Z) (acc : anyset * list (Z * Z)) (valueA : Z) : (anyset * list (Z * Z)) * bool :=
  let '(b, result) := acc in
  (as_Range b (ob valueA) (cp_inner valueA) result, true).
Definition CartesianProduct (a b : anyset) (oa : list Z) (ob : Z -> list Z) : anyset * anyset * list (Z * Z) :=
  let '(a', (b', result)) := as_Range a oa (cp_outer ob) (b, []) in
  (a', b', result).

(* ---- construction histories over a table of handles ---- *)
Inductive impl := IM | IS.

Inductive op :=
| ONew (i : impl)                                   (* make(maps.Set[int]) / new(sync2.Set[int]) *)
| OFromSlice (i : impl) (slice : list Z)
| OFromKeys (i : impl) (m : list (Z * Z))           (* map argument as its pairs in visit order *)
| OFromValues (i : impl) (m : list (Z * Z))
| OAdd (h : nat) (v : Z)
| ORemove (h : nat) (v : Z)
| OHas (h : nat) (v : Z)
| OLen (h : nat) (o : list Z)
| OSlice (h : nat) (o : list Z)
| OString (h : nat) (o : list Z)
| ORange (h : nat) (o : list Z) (j : nat)           (* the callback returns false at its j-th call; j = 0: never *)
| OClone (h : nat) (o : list Z)
| OAddSet (h g : nat) (og : list Z)
| ORemoveSet (h g : nat) (og : list Z)
| OBin (b : binop) (h g : nat) (oh og : list Z)
| OCartesian (h g : nat) (oh : list Z) (og : Z -> list Z).

Inductive out := VUnit | VBool (b : bool) | VInt (z : Z) | VList (l : list Z) | VToks (t : list tok) | VPairs (l : list (Z * Z)).

(* the user callback of ORange: locals (number of calls, values seen) *)
Definition stop_cb (j : nat) (acc : nat * list Z) (v : Z) : (nat * list Z) * bool :=
  let '(calls, seen) := acc in
  ((S calls, seen ++ [v]), negb (Nat.eqb (S calls) j)).

Definition new_set (i : impl) : anyset := match i with IM => AM ∅ | IS => AS empty_mstate end.
Definition new_from (i : impl) (ms : mapset) (ss : result syncset) : result anyset :=
  match i with IM => Ok (AM ms) | IS => do s <- ss; Ok (AS s) end.

Definition upd (hs : list anyset) (h : nat) (a : anyset) : list anyset := <[h := a]> hs.

(* None: not a history of the model (unknown handle, or receiver = argument) *)
Definition run_op (hs : list anyset) (o : op) : option (result (list anyset * out)) :=
  let two h g (k : anyset -> anyset -> result (list anyset * out)) :=
    if Nat.eqb h g then None else
    match hs !! h, hs !! g with Some a, Some b => Some (k a b) | _, _ => None end in
  let one h (k : anyset -> result (list anyset * out)) :=
    match hs !! h with Some a => Some (k a) | None => None end in
  match o with
  | ONew i => Some (Ok (hs ++ [new_set i], VUnit))
  | OFromSlice i l => Some (do a <- new_from i (ms_NewSetFromSlice l) (ss_NewSetFromSlice l); Ok (hs ++ [a], VUnit))
  | OFromKeys i m => Some (do a <- new_from i (ms_NewSetFromKeys m) (ss_NewSetFromKeys m); Ok (hs ++ [a], VUnit))
  | OFromValues i m => Some (do a <- new_from i (ms_NewSetFromValues m) (ss_NewSetFromValues m); Ok (hs ++ [a], VUnit))
  | OAdd h v => one h (λ a, do r <- as_Add a v; Ok (upd hs h r.1, VBool r.2))
  | ORemove h v => one h (λ a, let '(a', b) := as_Remove a v in Ok (upd hs h a', VBool b))
  | OHas h v => one h (λ a, let '(a', b) := as_Has a v in Ok (upd hs h a', VBool b))
  | OLen h o => one h (λ a, let '(a', n) := as_Len a o in Ok (upd hs h a', VInt n))
  | OSlice h o => one h (λ a, let '(a', l) := as_Slice a o in Ok (upd hs h a', VList l))
  | OString h o => one h (λ a, let '(a', t) := as_String a o in Ok (upd hs h a', VToks t))
  | ORange h o j => one h (λ a, let '(a', (_, seen)) := as_Range a o (stop_cb j) (O, []) in Ok (upd hs h a', VList seen))
  | OClone h o => one h (λ a, do r <- as_Clone a o; Ok (upd hs h r.1 ++ [r.2], VUnit))
  | OAddSet h g og => two h g (λ a b, do r <- as_AddSet a b og; Ok (upd (upd hs h r.1.1) g r.1.2, VInt r.2))
  | ORemoveSet h g og => two h g (λ a b, let '(a', b', n) := as_RemoveSet a b og in Ok (upd (upd hs h a') g b', VInt n))
  | OBin bo h g oh og => two h g (λ a b, do r <- as_Bin bo a b oh og; Ok (upd (upd hs h r.1.2) g r.2 ++ [r.1.1], VUnit))
  | OCartesian h g oh og => two h g (λ a b, let '(a', b', l) := CartesianProduct a b oh og in Ok (upd (upd hs h a') g b', VPairs l))
  end.

(* run a whole history; outputs in order *)
Fixpoint run_ops (hs : list anyset) (ops : list op) : option (result (list anyset * list out)) :=
  match ops with
  | [] => Some (Ok (hs, []))
  | o :: ops' =>
      match run_op hs o with
      | None => None
      | Some (Panic k) => Some (Panic k)
      | Some (Ok (hs', v)) =>
          match run_ops hs' ops' with
          | Some (Ok (hs'', vs)) => Some (Ok (hs'', v :: vs))
          | r => r
          end
      end
  end.

(* ---- abstraction ---- *)
Definition abs (a : anyset) : gset Z :=
  match a with AM s => s | AS s => dom (abs_map s) end.
